#!/bin/sh
# Offline setup: nothing to build; verify the tools and pre-generate the class table module.
set -e
cd "$(dirname "$0")"
java -version >/dev/null 2>&1
test -f /opt/veriftools/tla/tla2tools.jar
/venv/bin/python -c "import libcst, mypy_extensions"
/venv/bin/python -m harness.envgen > specs/MTEnv.tla
mkdir -p evidence replays .cache
echo setup ok
