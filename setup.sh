#!/bin/sh
# Offline setup: nothing to build; verify the tools and pre-generate the class table module.
set -e
cd "$(dirname "$0")"
java -version >/dev/null 2>&1
test -f /opt/veriftools/tla/tla2tools.jar
/venv/bin/python -c "import libcst, mypy_extensions"
/venv/bin/python -m harness.envgen > specs/MTEnv.tla
mkdir -p evidence replays .cache
# the binding self-test: hand-made traces with one corrupted field each must be rejected by the trace specs
/venv/bin/python -m harness.selftest
echo setup ok
