"""C11 context: a private top-level module (single leading underscore), like `_thread` or `_csv` - but with no public twin."""


class Account:
    pass
