"""C11 context: `zfoo`; `barzfoo` ends with it textually."""
from typing import NewType


class Baz:
    pass


ExtId = NewType("ExtId", int)
