"""C11/C12 target module: the functions whose stubs are rendered."""


class Own:
    class Inner:
        def deep(self, a):
            return a

    def meth(self, a, b=None):
        return a

    @classmethod
    def cmeth(cls, a):
        return a

    @staticmethod
    def smeth(a):
        return a

    @property
    def prop(self):
        return 1


def func(a, b=None):
    return a


def func2(x, a_b=None, aB=None):
    return x


def gen(a):
    yield a


async def coro(a):
    return a


def a_b(a_b):
    return a_b
