"""User class hierarchy shared by all value/type universes.

A; B(A); C(A); D(B, C); E; Outer.Inner; container subclasses.
The TLA+ class table (specs MTEnv) is generated from these live classes.
"""


class A:
    pass


class B(A):
    pass


class C(A):
    pass


class D(B, C):
    pass


class B2(B):
    pass


class B3(B):
    pass


class E:
    pass


class Outer:
    class Inner:
        pass


class MyStr(str):
    """A str subclass: dict keys of this class pass MonkeyType's 'all keys are strings' test."""


class MyList(list):
    pass


class MyDict(dict):
    pass


class MySet(set):
    pass


class MyTuple(tuple):
    pass


# crossed multiple inheritance family for order-dependence (C14/C07)
class P:
    pass


class Q:
    pass


class X1(P, Q):
    pass


class X2(P, Q):
    pass


class X3(P, Q):
    pass


class Y1(Q, P):
    pass


class Y2(Q, P):
    pass


class Y3(Q, P):
    pass


def a_function(x=None):
    return x


class HasMethod:
    def method(self):
        return None


class StrLike:
    """NOT a str, but it hashes and compares like the string 'a' (collections.UserString, a path object, an interned key)."""

    def __init__(self, text="a"):
        self.text = text

    def __hash__(self):
        return hash(self.text)

    def __eq__(self, other):
        return self.text == (other.text if isinstance(other, StrLike) else other)


class _CountingMeta(type):
    """A registry metaclass: len(cls) counts registered plugins - zero here, so the CLASS OBJECT is falsy."""

    def __len__(cls):
        return 0


class FalsyCls(metaclass=_CountingMeta):
    pass


import typing as _typing


class AnyProxy(_typing.Any):
    """A class deriving from typing.Any (allowed since Python 3.11: proxies, mocks) - a class like any other to MonkeyType."""


class AnyHolder:
    class Lazy(_typing.Any):
        pass
