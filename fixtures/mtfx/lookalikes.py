"""Application classes that are NAMED like builtins, typing names or MonkeyType's own markers.
Only their names are special; they are ordinary importable classes of this module."""


class TimeoutError(Exception):
    pass


class Warning:      # noqa: A001
    pass


class frozenset:    # noqa: A001, N801
    pass


class NoneType:
    pass


class List:
    pass


class Holder:
    class int:      # noqa: A001, N801   a nested class named like a builtin
        pass
