"""Application classes that are NAMED like builtins, typing names or MonkeyType's own markers.
Only their names are special; they are ordinary importable classes of this module."""


class TimeoutError(Exception):
    pass


class Warning:      # noqa: A001
    pass


class frozenset:    # noqa: A001, N801
    pass


class NoneType:
    pass


class List:
    pass


class Holder:
    class int:      # noqa: A001, N801   a nested class named like a builtin
        pass


# named like the typing constructs that MonkeyType's rewriters dispatch on
class Union:
    pass


class Set:
    pass


class Dict:
    pass


class Generator:
    pass


class Iterator:
    pass


class TypedDict:
    pass


class Tuple:
    pass
