"""Tripwire objects for C03: every user-definable hook appends to a journal and notes whether a
frame of the monkeytype package was on the stack at that moment (i.e. the TRACER executed user code).
This module is untraced."""
import collections
import os
import sys

JOURNAL = []
MT_DIR = [None]     # directory of the monkeytype package under test (set by the harness)
ROLE = ["?"]


def inside_tracer():
    f = sys._getframe(2)
    d = MT_DIR[0]
    while f is not None:
        if d and f.f_code.co_filename.startswith(d):
            return True
        f = f.f_back
    return False


def note(proto):
    JOURNAL.append((ROLE[0], proto, inside_tracer()))


FINALIZED = []


class _Local:
    def __del__(self):
        FINALIZED.append(1)


class Holder:
    obj = None

    @staticmethod
    def make_local():
        return _Local()


# --- attribute protocols ---------------------------------------------------------------------------------
class TGetAttribute:
    def __getattribute__(self, name):
        note("__getattribute__")
        return object.__getattribute__(self, name)

    def __call__(self, *a):
        return None


class TGetAttr:
    def __getattr__(self, name):
        note("__getattr__")
        raise AttributeError(name)

    def __call__(self, *a):
        return None


class TGetAttrRaises:
    """Attribute lookup on this object fails with something that is not an AttributeError."""
    def __getattr__(self, name):
        note("__getattr__(raises)")
        raise RuntimeError("attribute hook failed: " + name)

    def __call__(self, *a):
        return None


class TClassProp:
    @property
    def __class__(self):
        note("__class__")
        return TClassProp

    def __call__(self, *a):
        return None


class _Desc:
    def __get__(self, obj, typ=None):
        note("descriptor.__get__")
        return 1

    def __set__(self, obj, v):
        note("descriptor.__set__")


class TDescriptor:
    attr = _Desc()
    __wrapped__ = _Desc()
    __code__ = _Desc()

    def __call__(self, *a):
        return None


class TLazyProperty:
    @property
    def value(self):
        note("lazy property")
        return 1

    @property
    def __wrapped__(self):
        note("lazy property __wrapped__")
        raise AttributeError("__wrapped__")

    def __call__(self, *a):
        return None


# --- container subclasses --------------------------------------------------------------------------------
class TList(list):
    def __iter__(self):
        note("list.__iter__")
        return list.__iter__(self)

    def __len__(self):
        note("list.__len__")
        return list.__len__(self)

    def __contains__(self, x):
        note("list.__contains__")
        return list.__contains__(self, x)


class TDict(dict):
    def keys(self):
        note("dict.keys")
        return dict.keys(self)

    def items(self):
        note("dict.items")
        return dict.items(self)

    def values(self):
        note("dict.values")
        return dict.values(self)

    def __iter__(self):
        note("dict.__iter__")
        return dict.__iter__(self)

    def __len__(self):
        note("dict.__len__")
        return dict.__len__(self)

    def __contains__(self, x):
        note("dict.__contains__")
        return dict.__contains__(self, x)


class TSet(set):
    def __iter__(self):
        note("set.__iter__")
        return set.__iter__(self)

    def __len__(self):
        note("set.__len__")
        return set.__len__(self)

    def __contains__(self, x):
        note("set.__contains__")
        return set.__contains__(self, x)


class TDefaultDict(collections.defaultdict):
    def keys(self):
        note("defaultdict.keys")
        return collections.defaultdict.keys(self)

    def items(self):
        note("defaultdict.items")
        return collections.defaultdict.items(self)

    def values(self):
        note("defaultdict.values")
        return collections.defaultdict.values(self)

    def __iter__(self):
        note("defaultdict.__iter__")
        return collections.defaultdict.__iter__(self)

    def __len__(self):
        note("defaultdict.__len__")
        return collections.defaultdict.__len__(self)

    def __missing__(self, key):
        note("defaultdict.__missing__")
        return collections.defaultdict.__missing__(self, key)


class TTuple(tuple):
    def __iter__(self):
        note("tuple.__iter__")
        return tuple.__iter__(self)

    def __len__(self):
        note("tuple.__len__")
        return tuple.__len__(self)


# --- hashing, equality, truthiness, repr ------------------------------------------------------------------
class THashEq:
    def __hash__(self):
        note("__hash__")
        return 7

    def __eq__(self, other):
        note("__eq__")
        return self is other

    def __call__(self, *a):
        return None


class TBool:
    def __bool__(self):
        note("__bool__")
        return True

    def __len__(self):
        note("__len__")
        return 1

    def __call__(self, *a):
        return None


class TRepr:
    def __repr__(self):
        note("__repr__")
        return "TRepr()"

    def __str__(self):
        note("__str__")
        return "TRepr"

    def __call__(self, *a):
        return None


# --- metaclass hooks: the tripwire is a CLASS ---------------------------------------------------------------
class Meta(type):
    def __instancecheck__(cls, inst):
        note("meta.__instancecheck__")
        return type.__instancecheck__(cls, inst)

    def __subclasscheck__(cls, sub):
        note("meta.__subclasscheck__")
        return type.__subclasscheck__(cls, sub)

    def __hash__(cls):
        note("meta.__hash__")
        return type.__hash__(cls)

    def __eq__(cls, other):
        note("meta.__eq__")
        return cls is other

    def __getattribute__(cls, name):
        if not name.startswith("__") or name in ("__code__", "__wrapped__", "__class__"):
            note("meta.__getattribute__")
        return type.__getattribute__(cls, name)


def make_meta_class():
    return Meta("TMetaClass", (), {})


def make_meta_instance():
    return Meta("TMetaClassI", (), {})()


class TRaisingClass:
    """An object whose inspection raises (a non-AttributeError from the __class__ hook)."""
    @property
    def __class__(self):
        note("__class__(raises)")
        raise RuntimeError("inspection failed")


class TStrKey(str):
    """A str subclass with its own hashing / equality / text (a case-insensitive header name, an enum-like key)."""

    def __hash__(self):
        note("__hash__")
        return str.__hash__(self)

    def __eq__(self, other):
        note("__eq__")
        return str.__eq__(self, other)

    def __str__(self):
        note("__str__")
        return str.__str__(self)

    # ordering, length, iteration, formatting: whatever "tidying up" of keys (sorting, normalising, measuring) would call
    def __lt__(self, other):
        note("__lt__")
        return str.__lt__(self, other)

    def __gt__(self, other):
        note("__gt__")
        return str.__gt__(self, other)

    def __le__(self, other):
        note("__le__")
        return str.__le__(self, other)

    def __ge__(self, other):
        note("__ge__")
        return str.__ge__(self, other)

    def __ne__(self, other):
        note("__ne__")
        return str.__ne__(self, other)

    def __len__(self):
        note("__len__")
        return str.__len__(self)

    def __iter__(self):
        note("__iter__")
        return str.__iter__(self)

    def __format__(self, spec):
        note("__format__")
        return str.__format__(self, spec)

    def __repr__(self):
        note("__repr__")
        return str.__repr__(self)

    def __repr__(self):
        note("__repr__")
        return str.__repr__(self)

    def __len__(self):
        note("__len__")
        return str.__len__(self)

    def isidentifier(self):
        note("isidentifier")
        return str.isidentifier(self)


MAKERS = {
    "getattribute": TGetAttribute, "getattr": TGetAttr, "class_prop": TClassProp, "descriptor": TDescriptor,
    "lazy_property": TLazyProperty, "list_sub": lambda: TList([1, 2]), "dict_sub": lambda: TDict(a=1),
    "set_sub": lambda: TSet([1]), "tuple_sub": lambda: TTuple((1, 2)),
    "defaultdict_sub": lambda: TDefaultDict(int, a=1), "getattr_raises": TGetAttrRaises, "hash_eq": THashEq, "bool": TBool,
    "repr": TRepr, "meta_class": make_meta_class, "meta_instance": make_meta_instance,
    "str_sub_key": lambda: TStrKey("name"),
}
