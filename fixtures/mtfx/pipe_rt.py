"""Untraced runtime for the pipeline workloads (C01/C14): scripted return and yield values."""
RET = []
YS = []


def nxt():
    return RET.pop(0)


def ys():
    out = list(YS)
    del YS[:]
    return out


def abandon_then(gen_func, a0, b0):
    """Start gen_func(a0), take one value, drop it - and at once run gen_func(b0) to its end."""
    g = gen_func(a0)
    next(g, None)
    del g
    g2 = gen_func(b0)
    try:
        while True:
            next(g2)
    except StopIteration as e:
        return e.value
