"""Untraced runtime for the pipeline workloads (C01/C14): scripted return and yield values."""
RET = []
YS = []


def nxt():
    return RET.pop(0)


def ys():
    out = list(YS)
    del YS[:]
    return out
