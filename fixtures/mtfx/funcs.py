"""Fixture functions of every kind (used by the codec, stub and tracer replayers)."""
import functools


def deco(f):
    @functools.wraps(f)
    def wrapper(*a, **k):
        return f(*a, **k)
    return wrapper


def mod_func(a, b=None):
    return a


def vocab(module, qualname, elem_types=None, is_typed_dict=None):
    """Parameters named like the keys of the store's own JSON vocabulary (a name resolver, a registry lookup)."""
    return module


def vocab2(module, qualname):
    return qualname


@deco
def wrapped(a, b=1):
    return a


@deco
@deco
def wrapped_twice(a):
    return a


def gen_func(n):
    for i in range(n):
        yield i


async def coro_func(x):
    return x


class K:
    def inst(self, x, y=None):
        return x

    @classmethod
    def cm(cls, x):
        return x

    @staticmethod
    def sm(x, y=2):
        return x

    @property
    def prop(self):
        return 1

    @deco
    def wrapped_meth(self, x):
        return x

    class Nested:
        def meth(self, x):
            return x

        @staticmethod
        def nsm(x):
            return x


class KSub(K):
    def inst(self, x, y=None):
        return super().inst(x, y)
