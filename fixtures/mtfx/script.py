"""Script runtime for the scripted tracer fixtures.

This module is NOT traced (the replay's code filter rejects it).  The fixture functions in the
generated `traced` module are tiny interpreters: each loops `op, val = S.next()` and does what the
script says, so the same compiled code objects can take any history TLC chooses, and whether a
return is RETURN_VALUE or RETURN_CONST is decided by the real compiler.

The runtime also records the GROUND TRUTH event log: every program action as it is taken (with
the real values), and - through RecordingLogger - every CallTraceLogger.log call, in real order.
"""
import functools
import inspect
import sys


class Boom(Exception):
    """The exception scripted functions raise."""


class ScriptError(Exception):
    """The script and the running program disagree: a harness failure, never a verdict."""


class Suspender:
    """An awaitable that really suspends the awaiting coroutine once (yields None to the driver)."""

    def __await__(self):
        yield None


def deco(f):
    """functools.wraps decorator living in untraced code: the wrapper frame is filtered out."""
    @functools.wraps(f)
    def wrapper(*a, **k):
        return f(*a, **k)
    return wrapper


class Script:
    def __init__(self):
        self.reset([], {}, None)

    def reset(self, actions, targets, absval):
        if getattr(self, "objs", None):
            # whatever the previous scenario left suspended is finalised NOW (reference counts), not in the middle of this one
            self.objs.clear()
            self.keep.clear()
        if getattr(self, "used_threads", False):
            import gc
            gc.collect()                 # (frames of finished threads may sit in reference cycles)
        self.used_threads = False
        self.actions = list(actions)     # model actions still to perform
        self.pos = 0
        self.targets = targets           # name -> [callable maker] (never bound to a local at call time)
        self.absval = absval             # projection of live values (harness supplied)
        self.events = []                 # ground truth + Log events
        self.frames = {}                 # id(frame) -> fid, only while the frame is live
        self.keep = {}                   # fid -> frame: a strong reference only while the frame is live, so that
                                         # finished / abandoned frames CAN be freed and their addresses reused
        self.done_ids = set()            # id() of frames that finished (still valid only if somebody kept the frame)
        self.objs = {}                   # fid -> generator / coroutine object
        self.nfr = 0
        self.stack = []                  # fids of running fixture frames
        self.done = set()
        self.cur_draw = 0
        self.draw_log = []
        self.finishing = False
        self.anext = {}                  # fid of an async generator -> its __anext__() awaitable while suspended on an await
        self.deleg_parent = {}           # fid of a live delegate -> (fid of the frame delegating to it, does that frame catch)
        self._deleg_entry = None         # (event, draw mark) of a delegate whose first entry is about to happen

    # ---- bookkeeping -------------------------------------------------------------------
    def _new_fid(self, frame):
        self.nfr += 1
        self.frames[id(frame)] = self.nfr
        self.keep[self.nfr] = frame
        self.done_ids.discard(id(frame))
        return self.nfr

    def _finish(self, fid):
        self.deleg_parent.pop(fid, None)
        frame = self.keep.pop(fid, None)
        if frame is not None:
            self.frames.pop(id(frame), None)
            self.done_ids.add(id(frame))
        self.done.add(fid)

    def _finish_raising(self, fid):
        """fid ends with an exception (already logged as Raise / Propagate): the frames delegating to it that do
        not catch end with the same exception, innermost first."""
        x = fid
        while x in self.deleg_parent and not self.deleg_parent[x][1]:
            par = self.deleg_parent[x][0]
            self._finish(x)
            self.emit(ev="Propagate", fid=par)
            if self.stack and self.stack[-1] == par:
                self.stack.pop()
            x = par
        self._finish(x)

    def fid_of(self, frame):
        return self.frames.get(id(frame))

    def emit(self, **ev):
        self.events.append(ev)

    def _peek(self):
        return self.actions[self.pos] if self.pos < len(self.actions) else None

    def _take(self):
        a = self.actions[self.pos]
        self.pos += 1
        pre = a.get("pre")
        if pre is not None:
            # the program changes, IN PLACE and keeping its length, a container it has passed around before - and passes,
            # returns or yields the same object again with this action
            obj, content = pre
            if isinstance(obj, list):
                obj[:] = content
            elif isinstance(obj, dict):
                obj.clear()
                obj.update(content)
            elif isinstance(obj, set):
                obj.clear()
                obj.update(content)
        return a

    # ---- called by the fixture bodies --------------------------------------------------
    def next(self):
        """Next thing the RUNNING fixture frame must do: (op, val)."""
        frame = sys._getframe(1)
        fid = self.fid_of(frame)
        if fid is None:                      # first time we see this frame: a plain call just entered
            fid = self._new_fid(frame)
            if self._pending_entry is None:
                raise ScriptError("unexpected new frame %s" % frame.f_code.co_name)
            self._pending_entry["fid"] = fid
            # did the tracer consult the sampling RNG for this call's entry, and what did it draw?
            self._pending_entry["drawn"] = len(self.draw_log) > self._draw_mark
            self._pending_entry["draw"] = self.cur_draw
            self.emit(**self._pending_entry)
            self._pending_entry = None
        if self._deleg_entry is not None:    # a delegate has just been entered: was the sampling RNG consulted for it?
            ev, mark = self._deleg_entry
            self._deleg_entry = None
            ev["drawn"] = len(self.draw_log) > mark
        if not self.stack or self.stack[-1] != fid:
            # a resumed delegation chain: the frames delegating to this one are running below it
            chain, x = [fid], fid
            while x in self.deleg_parent:
                x = self.deleg_parent[x][0]
                chain.append(x)
            for x in reversed(chain):
                if x not in self.stack:
                    self.stack.append(x)
        a = self._peek()
        if a is None:                        # script exhausted: wind the program down
            self.finishing = True
            return self._finish_frame(fid)
        self._take()
        op = a["op"]
        if op in ("Call", "Create", "Resume", "Throw", "Drop"):
            return ("do_catch" if a.get("catch", True) else "do"), a
        if op == "Delegate":
            return ("deleg_catch" if a.get("catch", True) else "deleg"), a
        if a.get("id") not in (None, fid):
            raise ScriptError("script wants frame %s to %s but frame %s is running" % (a.get("id"), op, fid))
        if op == "Yield":
            # a value yielded by a delegate is yielded by every frame of the chain (`yield from`); all are suspended
            x = fid
            while True:
                self.emit(ev="Yield", fid=x, v=self.absval(a["val"]))
                self.stack.pop()
                if x not in self.deleg_parent:
                    break
                x = self.deleg_parent[x][0]
            return "yield", a["val"]
        if op == "Await":
            x = fid
            while True:
                self.emit(ev="Suspend", fid=x)
                self.stack.pop()
                if x not in self.deleg_parent:
                    break
                x = self.deleg_parent[x][0]
            return "await", None
        if op == "Return":
            how = a["how"]
            val = {"expr": a["val"], "const": 1, "implicit": None}[how]
            self.emit(ev="Return", fid=fid, how=how, v=self.absval(val))
            self.stack.pop()
            self._finish(fid)
            return "ret_" + how, a["val"]
        if op == "Raise":
            self.emit(ev="Raise", fid=fid)
            self.stack.pop()
            self._finish_raising(fid)
            return "raise", None
        if op == "Rebind":
            self.emit(ev="Rebind", fid=fid, v=self.absval(a["val"]))
            return "rebind", a["val"]
        raise ScriptError("unknown op %r" % (op,))

    def _finish_frame(self, fid):
        frame = self.keep.get(fid)
        if frame is not None and frame.f_code.co_flags & 0x200:      # CO_ASYNC_GENERATOR: no value can be returned
            self.emit(ev="Return", fid=fid, how="implicit", v=self.absval(None))
            self.stack.pop()
            self._finish(fid)
            return "ret_implicit", None
        self.emit(ev="Return", fid=fid, how="expr", v=self.absval(0))
        self.stack.pop()
        self._finish(fid)
        return "ret_expr", 0

    def do(self, a):
        """Perform a Call / Create / Resume / Throw action on behalf of the running frame (or driver).
        An exception passing through here propagates into the caller."""
        op = a["op"]
        caller = self.stack[-1] if self.stack else 0
        self.cur_draw = a.get("draw", 0)
        self._draw_mark = len(self.draw_log)
        try:
            if op in ("Call", "Create"):
                args, kwargs = a["args"], a["kwargs"]
                self._pending_entry = {"ev": "Call", "f": a["f"], "kind": a["kind"], "wanted": a["wanted"],
                                       "caller": caller, "catch": a.get("catch", True),
                                       "args": self._bound(a, args, kwargs)}
                if a["kind"] == "plain":
                    return self.targets[a["target"]]()(*args, **kwargs)
                obj = self.targets[a["target"]]()(*args, **kwargs)
                frame = obj.gi_frame if a["kind"] == "gen" else obj.ag_frame if a["kind"] == "agen" else obj.cr_frame
                fid = self._new_fid(frame)
                self.objs[fid] = obj
                ev = self._pending_entry
                self._pending_entry = None
                ev["fid"] = fid
                ev["drawn"], ev["draw"] = False, 0      # creating a generator / coroutine object runs no frame
                self.emit(**ev)
                return None
            fid = a["id"]
            obj = self.objs[fid]
            if op == "Resume":
                self.emit(ev="Resume", fid=fid, caller=caller, catch=a.get("catch", True), drawn=False, draw=self.cur_draw)
                ev, mark = self.events[-1], len(self.draw_log)

                def step():
                    if hasattr(obj, "gi_frame"):
                        next(obj)
                    elif hasattr(obj, "ag_frame"):
                        # one step of `async for`: __anext__() is driven until the generator yields (StopIteration
                        # carries the value) or suspends on an await (send returns; the same awaitable is resumed later)
                        an = self.anext.pop(fid, None) or obj.__anext__()
                        an.send(None)
                        self.anext[fid] = an
                    else:
                        obj.send(None)
                try:
                    if self.thread_profiler is not None and not self.stack:
                        # the program resumes this generator / coroutine on ANOTHER thread, in which the same tracer is
                        # installed (threading.setprofile): one step, joined at once - the program stays sequential
                        self._in_thread(step)
                    else:
                        step()
                except (StopIteration, StopAsyncIteration):
                    pass
                finally:
                    ev["drawn"] = len(self.draw_log) > mark
                return None
            if op == "Throw":
                self.emit(ev="Throw", fid=fid, caller=caller, drawn=False, draw=self.cur_draw)
                ev, mark = self.events[-1], len(self.draw_log)
                try:
                    obj.throw(Boom())
                except Boom:
                    pass
                except StopIteration:
                    pass
                finally:
                    ev["drawn"] = len(self.draw_log) > mark
                self._finish(fid)
                return None
            if op == "Drop":
                # the program abandons a suspended generator: last reference gone -> close() -> GeneratorExit.
                # If the script's next action is a plain call by the same actor, it is performed IMMEDIATELY after the
                # drop, with everything prepared beforehand, so that the new frame is the first frame object allocated
                # after the generator's frame was freed (address reuse is what a tracer keyed by id() trips over).
                nxt = self._peek()
                fused = None
                if nxt is not None and nxt["op"] == "Call" and nxt["kind"] == "plain" and nxt.get("catch", True):
                    self._take()
                    fused = (self.targets[nxt["target"]](), nxt["args"], nxt["kwargs"],
                             {"ev": "Call", "f": nxt["f"], "kind": nxt["kind"], "wanted": nxt["wanted"], "caller": caller,
                              "catch": True, "args": self._bound(nxt, nxt["args"], nxt["kwargs"])}, nxt.get("draw", 0))
                    self._draw_mark = len(self.draw_log) + 10 ** 9   # the draw of a fused call is not attributed
                self.emit(ev="Drop", fid=fid, caller=caller)
                frame = self.keep.pop(fid, None)
                if frame is not None:
                    self.frames.pop(id(frame), None)
                del frame
                self.objs.pop(fid, None)
                if fused is None:
                    obj = None
                    return None
                # the callee is NOT bound to a local of this frame: callable locals of calling frames are a lookup
                # stage of the tracer, and a hidden function must stay unresolvable
                self._pending_entry, self.cur_draw = fused[3], fused[4]
                obj = None
                return fused[0](*fused[1], **fused[2])
            raise ScriptError("cannot do %r" % (op,))
        except Boom:
            if not a.get("catch", True) and caller:
                # the exception leaves through the calling fixture frame, which never gets to ask
                self.emit(ev="Propagate", fid=caller)
                if self.stack and self.stack[-1] == caller:
                    self.stack.pop()
                self._finish_raising(caller)
            raise

    thread_profiler = None

    def _in_thread(self, fn):
        import threading
        box = []

        def run():
            sys.setprofile(self.thread_profiler)
            try:
                fn()
            except BaseException as e:      # handed back to the resuming thread
                box.append(e)
            finally:
                sys.setprofile(None)
        self.used_threads = True
        t = threading.Thread(target=run)
        t.start()
        t.join()
        if box:
            e = box.pop()
            # (no traceback: it would tie the thread's frames into a reference cycle, and generators of THIS scenario would
            # be finalised by the garbage collector in the middle of the next one)
            raise e.with_traceback(None)

    def delegate(self, a):
        """The running generator / coroutine is about to `yield from` / `await` the created object a["id"]."""
        fid = a["id"]
        parent = self.stack[-1]
        self.cur_draw = a.get("draw", 0)
        self.deleg_parent[fid] = (parent, a.get("catch", True))
        self.emit(ev="Delegate", fid=fid, caller=parent, catch=a.get("catch", True), drawn=False, draw=self.cur_draw)
        self._deleg_entry = (self.events[-1], len(self.draw_log))
        return self.objs[fid]

    def caught(self):
        self.emit(ev="Caught", fid=self.stack[-1] if self.stack else 0)

    def _bound(self, a, args, kwargs):
        """Entry bindings of the NAMED parameters, from the signature - not from the frame."""
        f = a["sigfunc"]()
        sig = inspect.signature(f, follow_wrapped=False)      # the function whose code runs, whatever its __wrapped__ says
        ba = sig.bind(*(a["selfargs"]() + list(args)), **kwargs)
        ba.apply_defaults()
        out = []
        for name, p in sig.parameters.items():
            if p.kind in (p.VAR_POSITIONAL, p.VAR_KEYWORD):
                continue
            out.append({"n": name, "v": self.absval(ba.arguments[name])})
        return out

    # ---- the driver ----------------------------------------------------------------------
    _pending_entry = None
    _draw_mark = 0

    def drive(self):
        """Run the script from the top level (the driver catches everything scripted)."""
        while True:
            a = self._peek()
            if a is None:
                break
            if a["op"] not in ("Call", "Create", "Resume", "Throw", "Drop"):
                raise ScriptError("driver cannot %s" % a["op"])
            self._take()
            try:
                self.do(a)
            except Boom:
                self.emit(ev="Caught", fid=0)
        self.finishing = True


S = Script()


class FakeRandom:
    """Stands in for the `random` module inside monkeytype.tracing during a scripted replay."""

    def randrange(self, n):
        S.draw_log.append(n)
        return S.cur_draw if S.cur_draw < n else 0

    def Random(self, *a):
        """A tracer that creates a generator of its own (random.Random()) gets the scripted one."""
        return self
