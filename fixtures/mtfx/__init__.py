"""Fixture package for the MonkeyType verification harness (never imported by /repo)."""
