"""C15/C16: a user module whose names sources already import in various ways and stubs import anew."""


class Circle:
    r = 1


class Square:
    side = 2


def area(s):
    return 3
