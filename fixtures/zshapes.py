"""C15/C16: a user module whose names sources already import in various ways and stubs import anew."""


class Circle:
    r = 1


class Square:
    side = 2


def area(s):
    return 3


class Canvas:
    """A class with a class inside it (C15/C16: a traced value whose class is nested in a class of ANOTHER module)."""

    class Layer:
        z = 0
