"""C11 context: a module whose name ENDS with `typing`, and classes whose names contain `NoneType` / `typing`."""


class Foo:
    pass


class MyNoneTypeBox:
    """`NoneType` is part of the class name."""
