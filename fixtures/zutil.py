"""C11 context: module `zutil`; `zpkg.zutil` has a name that ends with this one."""


class A:
    pass


class zutil:
    """A class named like its module."""


class Outer:
    class Inner:
        pass


import typing as _t

_T = _t.TypeVar("_T")


class Reg:
    """A user-defined generic class nested in another class (C11: reaches the renderer through source annotations)."""

    class Slot(_t.Generic[_T]):
        pass
