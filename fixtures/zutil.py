"""C11 context: module `zutil`; `zpkg.zutil` has a name that ends with this one."""


class A:
    pass


class zutil:
    """A class named like its module."""


class Outer:
    class Inner:
        pass
