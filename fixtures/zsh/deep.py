"""C16: reached as `import zsh.deep`."""


class Deep:
    pass
