

class PkgTop:
    """A class of the PACKAGE zpkg: next to zpkg.zutil.B one signature holds a module and its own submodule."""
