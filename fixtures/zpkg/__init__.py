

class PkgTop:
    """A class of the PACKAGE zpkg: next to zpkg.zutil.B one signature holds a module and its own submodule."""


class zfoo:
    """A class named like ANOTHER top-level module (zfoo), with a class inside it: zpkg.zfoo.K."""

    class K:
        pass
