"""C11 context: `zpkg.zutil` - the dotted name ends with `zutil`."""


class B:
    pass


class A:
    """Same class name as zutil.A"""
