"""C11 context: `zfoo_v2` - its name starts with the name of module `zfoo` plus one more character."""


class W:
    pass
