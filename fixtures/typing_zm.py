"""C16: a user module whose name merely begins with `typing`."""


class TM:
    pass
