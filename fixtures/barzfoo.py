"""C11 context: `barzfoo` - textual suffix clash with `zfoo`."""


class Qux:
    pass
