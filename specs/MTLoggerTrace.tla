---------------------------- MODULE MTLoggerTrace ----------------------------
(***************************************************************************)
(* Trace specification for MTLogger: one ndjson line per behaviour         *)
(* {tid, nloggers, main:[ids], events:[{op, l, t, ok, bufs:[[ids]...],     *)
(* store:[ids]}]} recorded from real CallTraceStoreLogger objects over one *)
(* SQLite file.  After every event the recorded buffers and the recorded   *)
(* store contents (read through an independent connection) must equal what *)
(* MTLogger's effects give; `ok` of a flush must agree with the lock state.*)
(***************************************************************************)
EXTENDS Naturals, Sequences, FiniteSets, TLC, SequencesExt, Json, IOUtils

Recs == ndJsonDeserialize(IOEnv.TRACE_FILE)
N == Len(Recs)

VARIABLES i, l, buf, store, avail, viol
vars == <<i, l, buf, store, avail, viol>>

M == INSTANCE MTLogger WITH NLoggers <- 0, Traces <- {}, MainTraces <- {}, MaxBuf <- 0,
                            buf <- buf, store <- store, avail <- avail, logged <- {}, hist <- <<>>

Main == {Recs[i].main[j] : j \in 1..Len(Recs[i].main)}
LogEff(b, t) == IF t \in Main THEN b ELSE Append(b, t)
SeqSet(s) == {s[j] : j \in 1..Len(s)}

Init == i = 1 /\ l = 0 /\ buf = <<>> /\ store = {} /\ avail = TRUE /\ viol = {}

Start == /\ i <= N /\ l = 0 /\ buf = <<>>
         /\ buf' = [k \in 1..Recs[i].nloggers |-> <<>>]
         /\ l' = 1 /\ UNCHANGED <<i, store, avail, viol>>

Step ==
  /\ i <= N /\ l >= 1 /\ l <= Len(Recs[i].events) /\ buf # <<>>
  /\ LET e == Recs[i].events[l]
         w == IF e.op = "Flush" THEN M!CanWrite(avail, buf[e.l]) ELSE TRUE
         nb == CASE e.op = "Log"   -> [buf EXCEPT ![e.l] = LogEff(@, e.t)]
                 [] e.op = "Flush" -> IF w THEN [buf EXCEPT ![e.l] = <<>>] ELSE buf
                 [] OTHER -> buf
         ns == IF e.op = "Flush" /\ w THEN M!FlushOkStore(store, buf[e.l]) ELSE store
         na == CASE e.op = "Lock" -> FALSE [] e.op = "Unlock" -> TRUE [] OTHER -> avail
         gotb == [k \in 1..Len(e.bufs) |-> e.bufs[k]]
         v1 == IF e.op = "Flush" /\ e.ok # w THEN {IF w THEN "FlushRaisedOnWritableStore" ELSE "FlushReturnedOnLockedStore"} ELSE {}
         v2 == IF gotb # nb THEN {IF e.op = "Log" THEN "LogBuffers" ELSE IF e.op = "Flush" THEN (IF w THEN "FlushEmptiesBuffer" ELSE "FailedFlushKeepsBuffer") ELSE "BufferUntouched"} ELSE {}
         v3 == IF SeqSet(e.store) # ns THEN {IF e.op = "Flush" THEN (IF w THEN "FlushCommitsAll" ELSE "FailedFlushCommitsNothing") ELSE "StoreUntouched"} ELSE {}
         v4 == IF Len(e.store) # Cardinality(SeqSet(e.store)) THEN {"StoreDistinct"} ELSE {}
     IN /\ viol' = viol \cup v1 \cup v2 \cup v3 \cup v4
        \* resynchronise on what was observed so that one divergence is reported once
        /\ buf' = gotb /\ store' = SeqSet(e.store) /\ avail' = na
  /\ l' = l + 1 /\ UNCHANGED i

EndTrace ==
  /\ i <= N /\ l = Len(Recs[i].events) + 1
  /\ viol # {} => PrintT(<<"V", ToJson([tid |-> Recs[i].tid, viol |-> viol, drift |-> FALSE])>>)
  /\ i' = i + 1 /\ l' = 0 /\ buf' = <<>> /\ store' = {} /\ avail' = TRUE /\ viol' = {}

Done == /\ i = N + 1 /\ PrintT(<<"DONE", ToJson([n |-> N])>>) /\ i' = N + 2 /\ UNCHANGED <<l, buf, store, avail, viol>>

Next == Start \/ Step \/ EndTrace \/ Done
Spec == Init /\ [][Next]_vars
=============================================================================
