---------------------------- MODULE MTTracerTrace ----------------------------
(***************************************************************************)
(* P-layer for C02 / C18 / C17(b), as a trace specification: it consumes   *)
(* the ground-truth event log that the scripted program records about      *)
(* itself (calls with the values bound at entry, yields, returns, raises,  *)
(* propagation) interleaved, in real order, with the CallTraceLogger.log   *)
(* calls the real tracer made.  It knows nothing of how the tracer works.  *)
(*                                                                         *)
(* One ndjson line per scenario:                                           *)
(*   {tid, rate, k, events:[...], }                                        *)
(* events:                                                                 *)
(*   Call      {fid, f, kind, wanted, args:[{n, v}]}                       *)
(*   Yield     {fid, v}      Suspend {fid}     Resume {fid}   Rebind {..}  *)
(*   Return    {fid, v}      Raise {fid}       Propagate {fid}  Throw{fid} *)
(*   Drop      {fid}         a suspended generator is abandoned            *)
(*   Delegate  {fid}         first entry of fid through `yield from` /     *)
(*                           `await` in another fixture frame; from then   *)
(*                           on the program logs a Yield / Suspend for     *)
(*                           EVERY frame of the delegation chain           *)
(*   Log       {f, args:[{n, ty}], ret, ys}    ret/ys = absent-sentinel    *)
(*   End       {resid}       resid = finished frames still held by tracer  *)
(*   Stat      {n, traced, lo, hi}   seeded run with the real RNG (C18)    *)
(*                                                                         *)
(* State: the completed-but-not-yet-logged calls (pending), per-frame      *)
(* ground truth, and viol.  Actions are total: a bad Log never disables,   *)
(* it adds clause names to viol.                                           *)
(***************************************************************************)
EXTENDS MTValues, Json, IOUtils

Recs == ndJsonDeserialize(IOEnv.TRACE_FILE)
N == Len(Recs)

VARIABLES i, l, frames, pending, viol
vars == <<i, l, frames, pending, viol>>

Init == i = 1 /\ l = 0 /\ frames = <<>> /\ pending = <<>> /\ viol = {}

IsAbsent(t) == t.k = "absent"

\* "the type of the value": sound and tight for that single value, TypedDict limit honoured
TypeOfOK(v, ty, k) == /\ Member(v, ty) /\ Wit(ty, {v}, FALSE)
                      /\ (IF k = 0 THEN AllTDs(ty) = {} ELSE TDBoundOK(ty, k))

ArgSetV(s) == {[n |-> s[j].n, v |-> J2T(s[j].v)] : j \in 1..Len(s)}
ArgSetT(s) == {[n |-> s[j].n, ty |-> J2T(s[j].ty)] : j \in 1..Len(s)}

YName(p, clause) == IF p.kind = "agen" THEN "AsyncGen" \o clause ELSE clause

\* which clauses does log entry lg falsify when it is taken to describe completed call p?
LogViol(p, lg, k) ==
  LET la == ArgSetT(lg.args)
      ret == J2T(lg.ret)
      ys  == J2T(lg.ys)
  IN   (IF {x.n : x \in p.args} # {x.n : x \in la} THEN {"ArgNames"} ELSE {})
  \cup (IF \E x \in p.args : \E y \in la : x.n = y.n /\ ~TypeOfOK(x.v, y.ty, k) THEN {"ArgTypes"} ELSE {})
  \cup (IF p.exc /\ ~IsAbsent(ret) THEN {"ReturnAbsentOnException"} ELSE {})
  \cup (IF ~p.exc /\ IsAbsent(ret) THEN {"ReturnPresent"} ELSE {})
  \cup (IF ~p.exc /\ ~IsAbsent(ret) /\ ~TypeOfOK(p.ret, ret, k) THEN {"ReturnType"} ELSE {})
  \* (the yield clauses carry another name for async generators, so that a finding recorded for them hides nothing else)
  \cup (IF p.ys = {} /\ ~IsAbsent(ys) THEN {YName(p, "YieldsOnly")} ELSE {})
  \cup (IF p.ys # {} /\ IsAbsent(ys) THEN {YName(p, "YieldsCovered")} ELSE {})
  \cup (IF p.ys # {} /\ ~IsAbsent(ys) /\ ~(\A v \in p.ys : Member(v, ys)) THEN {YName(p, "YieldsCovered")} ELSE {})
  \cup (IF p.ys # {} /\ ~IsAbsent(ys) /\ ~Wit(ys, p.ys, FALSE) THEN {YName(p, "YieldsOnly")} ELSE {})

Ev == Recs[i].events[l + 1]

FrameOf(fid) == frames[fid]

Complete(fid, retv, exc) ==
  LET fr == FrameOf(fid)
  IN  IF fr.wanted
      THEN Append(pending, [f |-> fr.f, kind |-> fr.kind, args |-> fr.args, ys |-> fr.ys, ret |-> retv, exc |-> exc, must |-> fr.must])
      ELSE pending

\* index of the first pending call that log entry lg can describe (0 if none)
FirstSameF(lg) == IF \E j \in 1..Len(pending) : pending[j].f = lg.f
                  THEN CHOOSE j \in 1..Len(pending) : pending[j].f = lg.f /\ \A h \in 1..(j - 1) : pending[h].f # lg.f
                  ELSE 0
\* the pending call of the same function that the entry describes best (fewest falsified clauses)
BestSameF(lg, k) ==
  LET C == {j \in 1..Len(pending) : pending[j].f = lg.f}
      \* (the async-generator yield clauses do not count: every log entry of an async generator falsifies them on this
      \* interpreter, which must not make the entry look like the description of another call)
      n(j) == Cardinality(LogViol(pending[j], lg, k) \ {"AsyncGenYieldsOnly", "AsyncGenYieldsCovered"})
      best == {j \in C : \A h \in C : n(j) <= n(h)}
      \* among equally good candidates, one that the sampling draw obliges to be logged; then the oldest
      pref == IF \E j \in best : pending[j].must THEN {j \in best : pending[j].must} ELSE best
  IN  IF C = {} THEN 0
      ELSE CHOOSE j \in pref : \A h \in pref : j <= h
Exact(j, lg, k) == pending[j].f = lg.f /\ LogViol(pending[j], lg, k) = {}
\* exact up to the async-generator yield clauses
AlmostExact(j, lg, k) == pending[j].f = lg.f /\ LogViol(pending[j], lg, k) \subseteq {"AsyncGenYieldsOnly", "AsyncGenYieldsCovered"}
\* the oldest exactly described pending call; among several, one that the sampling draw obliges to be logged first
FirstExact(lg, k) == IF \E j \in 1..Len(pending) : Exact(j, lg, k) /\ pending[j].must
                     THEN CHOOSE j \in 1..Len(pending) :
                            /\ Exact(j, lg, k) /\ pending[j].must
                            /\ \A h \in 1..(j - 1) : ~(Exact(h, lg, k) /\ pending[h].must)
                     ELSE IF \E j \in 1..Len(pending) : Exact(j, lg, k)
                     THEN CHOOSE j \in 1..Len(pending) : Exact(j, lg, k) /\ \A h \in 1..(j - 1) : ~Exact(h, lg, k)
                     ELSE 0

Step ==
  /\ i <= N /\ l < Len(Recs[i].events)
  /\ LET e == Ev
         rate == Recs[i].rate
         k == Recs[i].k
     IN
     CASE e.ev = "Call" ->
            \* must = the tracer consulted the sampling RNG at this call's entry and the draw said "trace"
            /\ frames' = Append(frames, [f |-> e.f, kind |-> e.kind, wanted |-> e.wanted, args |-> ArgSetV(e.args), ys |-> {},
                                         must |-> (e.kind = "plain" /\ e.drawn /\ e.draw = 0), entered |-> (e.kind = "plain")])
            /\ UNCHANGED <<pending, viol>>
       [] e.ev \in {"Resume", "Delegate"} ->
            \* the first resumption of a generator / coroutine is its entry
            /\ frames' = IF frames[e.fid].entered THEN frames
                          ELSE [frames EXCEPT ![e.fid].entered = TRUE, ![e.fid].must = (e.drawn /\ e.draw = 0)]
            /\ UNCHANGED <<pending, viol>>
       [] e.ev = "Yield" ->
            /\ frames' = [frames EXCEPT ![e.fid].ys = @ \cup {J2T(e.v)}]
            /\ UNCHANGED <<pending, viol>>
       [] e.ev = "Return" ->
            /\ pending' = Complete(e.fid, J2T(e.v), FALSE)
            /\ UNCHANGED <<frames, viol>>
       [] e.ev = "Drop" ->
            \* an abandoned generator: no verdict for it (it is simply no longer expected to be logged)
            /\ frames' = [frames EXCEPT ![e.fid].wanted = FALSE]
            /\ UNCHANGED <<pending, viol>>
       [] e.ev \in {"Raise", "Propagate"} ->
            /\ pending' = Complete(e.fid, TAbsent, TRUE)
            /\ UNCHANGED <<frames, viol>>
       [] e.ev = "Throw" ->
            \* an exception thrown into a generator / coroutine that was never started is its entry AND its end
            /\ LET fr0 == frames[e.fid]
                   fr1 == IF fr0.entered THEN fr0 ELSE [fr0 EXCEPT !.entered = TRUE, !.must = (e.drawn /\ e.draw = 0)]
               IN  pending' = IF fr1.wanted
                              THEN Append(pending, [f |-> fr1.f, kind |-> fr1.kind, args |-> fr1.args, ys |-> fr1.ys, ret |-> TAbsent,
                                                    exc |-> TRUE, must |-> fr1.must])
                              ELSE pending
            /\ UNCHANGED <<frames, viol>>
       [] e.ev = "Log" ->
            \* the entry must describe a completed, not yet logged call exactly; when every call is
            \* sampled (rate <= 1) it must be the OLDEST one (exactly once, in completion order);
            \* under sampling older ones may have been skipped
            LET j  == FirstExact(e, k)
                j2 == IF rate <= 1 THEN FirstSameF(e) ELSE BestSameF(e, k)
                ooo(x) == IF rate <= 1 /\ x > 1 THEN {"MissingOrOutOfOrder"} ELSE {}
            IN
            IF j > 0 THEN /\ viol' = viol \cup ooo(j)
                          /\ pending' = SubSeq(pending, j + 1, Len(pending))
                          /\ UNCHANGED frames
            ELSE IF j2 > 0 THEN /\ viol' = viol \cup LogViol(pending[j2], e, k) \cup ooo(j2)
                                /\ pending' = SubSeq(pending, j2 + 1, Len(pending))
                                /\ UNCHANGED frames
            ELSE /\ viol' = viol \cup {IF e.known THEN "SpuriousLog" ELSE "OnlyAdmitted"}
                 /\ UNCHANGED <<frames, pending>>
       [] e.ev = "End" ->
            /\ viol' = viol \cup (IF rate <= 1 /\ Len(pending) > 0 THEN {"MissingLog"} ELSE {})
                            \* under sampling: a call whose entry draw said "trace" must have been logged
                            \cup (IF rate > 1 /\ \E j \in 1..Len(pending) : pending[j].must THEN {"SampledCallNotLogged"} ELSE {})
                            \cup (IF e.resid > 0 THEN {"Residue"} ELSE {})
            /\ UNCHANGED <<frames, pending>>
       [] e.ev = "Stat" ->
            \* unscripted run with the real RNG: traced count of n calls inside the exact binomial
            \* acceptance interval [lo, hi] for probability 1/rate ("about one call in N")
            /\ viol' = viol \cup (IF e.lo <= e.traced /\ e.traced <= e.hi THEN {} ELSE {"SamplingFraction"})
            /\ UNCHANGED <<frames, pending>>
       [] OTHER -> UNCHANGED <<frames, pending, viol>>
  /\ l' = l + 1 /\ UNCHANGED i

EndTrace ==
  /\ i <= N /\ l = Len(Recs[i].events)
  /\ viol # {} => PrintT(<<"V", ToJson([tid |-> Recs[i].tid, viol |-> viol, drift |-> FALSE])>>)
  /\ i' = i + 1 /\ l' = 0 /\ frames' = <<>> /\ pending' = <<>> /\ viol' = {}

Done == /\ i = N + 1
        /\ PrintT(<<"DONE", ToJson([n |-> N])>>)
        /\ i' = N + 2 /\ UNCHANGED <<l, frames, pending, viol>>

Next == Step \/ EndTrace \/ Done
Spec == Init /\ [][Next]_vars
=============================================================================
