---------------------------- MODULE MTDecodeTrace ----------------------------
(***************************************************************************)
(* P-layer for C10 over observed CLI runs.  One ndjson line per run:       *)
(* {tid, cmd, verbose, kinds:[row kinds as inserted, distinct rows],       *)
(*  rc, crashed, same (stdout/file equals the run on the decodable rows    *)
(*  alone, compared as abstract stubs), stub_present, count (number in     *)
(*  "<n> traces failed to decode", -1 if the line is absent), warnings     *)
(*  (number of "WARNING: Failed decoding trace" lines), no_traces_msg}     *)
(***************************************************************************)
EXTENDS Integers, Sequences, FiniteSets, TLC, MTDecodeKinds, Json, IOUtils

Recs == ndJsonDeserialize(IOEnv.TRACE_FILE)
N == Len(Recs)
VARIABLES i
tvars == <<i>>
TInit == i = 1

Viol(r) ==
  LET nbad  == Cardinality({j \in 1..Len(r.kinds) : ~DecodableKind(r.kinds[j])})
      ngood == Cardinality({j \in 1..Len(r.kinds) : HereKind(r.kinds[j])})
  IN   (IF r.rc # 0 \/ r.crashed # "NONE" THEN {"NeverFatal"} ELSE {})
  \cup (IF r.crashed = "NONE" /\ ~r.same THEN {"OutputEqualsDecodableOnly"} ELSE {})
  \cup (IF r.crashed = "NONE" /\ ~r.verbose /\ nbad > 0 /\ r.count # nbad THEN {"CountReported"} ELSE {})
  \cup (IF r.crashed = "NONE" /\ ~r.verbose /\ nbad = 0 /\ r.count # -1 THEN {"CountReported"} ELSE {})
  \* `stub --diff` builds two stubs and may decode (and report) the stored rows twice
  \cup (IF r.crashed = "NONE" /\ r.verbose /\ r.warnings # nbad /\ ~(r.cmd = "stub_diff" /\ r.warnings = 2 * nbad)
        THEN {"EachReported"} ELSE {})
  \cup (IF r.crashed = "NONE" /\ ngood = 0 /\ (~r.no_traces_msg \/ r.stub_present) THEN {"NoTracesSaid"} ELSE {})
  \cup (IF r.crashed = "NONE" /\ ngood > 0 /\ (r.no_traces_msg \/ ~r.stub_present) THEN {"StubProduced"} ELSE {})

TStep == /\ i <= N
         /\ LET v == Viol(Recs[i]) IN
            v # {} => PrintT(<<"V", ToJson([tid |-> Recs[i].tid, viol |-> v, drift |-> FALSE])>>)
         /\ i' = i + 1
TDone == /\ i = N + 1 /\ PrintT(<<"DONE", ToJson([n |-> N])>>) /\ i' = N + 2
TNext == TStep \/ TDone
TSpec == TInit /\ [][TNext]_tvars
=============================================================================
