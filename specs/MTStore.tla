------------------------------- MODULE MTStore -------------------------------
(***************************************************************************)
(* The trace store (monkeytype/db/sqlite.py over SQLite) as a transition   *)
(* system: connections in separate processes add batches, read, crash and  *)
(* reopen.  SQLiteStore.add is  Serialize (outside any transaction; traces *)
(* that fail to serialise are dropped) . Begin . InsertRow^n . Commit,     *)
(* with Abort (interrupted statement: `with conn` rolls back), Busy (lock  *)
(* held by another writer: exception, nothing written) and Crash (the      *)
(* process dies; the journal is rolled back by the next opener) possible   *)
(* between any two steps.  Readers see committed rows only.                *)
(*                                                                         *)
(* Rows are ids; RowMod / RowQn give module and qualified name (a sequence *)
(* of code points so that prefix and LIKE matching can be written down).   *)
(***************************************************************************)
EXTENDS Naturals, Sequences, FiniteSets, TLC, SequencesExt

CONSTANTS Conn,        \* connections / processes
          Rows,        \* row ids
          RowMod,      \* row -> module name
          RowQn,       \* row -> qualified name as Seq(code point)
          Batches,     \* batch id -> [rows: set of serialisable rows, bad: number of unserialisable traces]
          Mods, QPrefixes, Limits,
          Dev_Like     \* make_query uses `qualname LIKE ? || '%'`: _ and % are wildcards, ASCII case-insensitive

NoPrefix == <<0>>     \* "qualname_prefix is None"
None == "none"
NoTxn == [b |-> "none", cur |-> 0]
NoOut == [c |-> "none", op |-> "none", res |-> {}, m |-> "none", p |-> <<0>>, n |-> 0]

VARIABLES disk,     \* set of committed batch ids (each batch is all-or-nothing by construction of Commit)
          txn,      \* c -> [b, cur] in-flight add (rows inserted so far, invisible to others) or None
          alive,    \* c -> BOOLEAN
          lock,     \* connection holding the write lock, or None
          journal,  \* c -> batch whose transaction died with the process (hot journal) or None
          out,      \* last observation [c, op, res]
          hist
vars == <<disk, txn, alive, lock, journal, out, hist>>

Init == /\ disk = {} /\ txn = [c \in Conn |-> NoTxn] /\ alive = [c \in Conn |-> TRUE]
        /\ lock = None /\ journal = [c \in Conn |-> None]
        /\ out = NoOut /\ hist = <<>>

DiskRows == UNION {Batches[b].rows : b \in disk}

\* ---- matching ---------------------------------------------------------------------------
Lower(ch) == IF ch >= 65 /\ ch <= 90 THEN ch + 32 ELSE ch
RECURSIVE LikeMatch(_, _)        \* SQL LIKE of pattern (Seq) against text (Seq); 37 = %, 95 = _
LikeMatch(pat, txt) ==
  IF Len(pat) = 0 THEN Len(txt) = 0
  ELSE IF pat[1] = 37 THEN \E i \in 0..Len(txt) : LikeMatch(Tail(pat), SubSeq(txt, i + 1, Len(txt)))
  ELSE IF Len(txt) = 0 THEN FALSE
  ELSE IF pat[1] = 95 \/ Lower(pat[1]) = Lower(txt[1]) THEN LikeMatch(Tail(pat), Tail(txt))
  ELSE FALSE

PrefixMatch(p, qn) == Len(p) <= Len(qn) /\ SubSeq(qn, 1, Len(p)) = p
Match(r, m, p) == /\ RowMod[r] = m
                  /\ (p = NoPrefix \/ IF Dev_Like THEN LikeMatch(p \o <<37>>, RowQn[r]) ELSE PrefixMatch(p, RowQn[r]))
\* the property's own reading (P-layer)
MatchP(r, m, p) == RowMod[r] = m /\ (p = NoPrefix \/ PrefixMatch(p, RowQn[r]))

\* ---- actions ------------------------------------------------------------------------------
\* The transactional core (guards and effects on disk / txn / alive / lock / journal) lives in MTStoreTxn, where
\* Apalache proves its invariants inductively; here every step also appends to the history and resets the observation.
BatchSizeOf == [b \in DOMAIN Batches |-> Cardinality(Batches[b].rows)]
T == INSTANCE MTStoreTxn WITH BatchIds <- DOMAIN Batches, BatchSize <- BatchSizeOf

H(op, c, b) == hist' = Append(hist, [op |-> op, c |-> c, b |-> b, m |-> None, p |-> NoPrefix, n |-> 0])

\* add(batch): serialise (drop the unserialisable), BEGIN, first INSERT takes the write lock
Begin(c, b) == T!TBegin(c, b) /\ H("Begin", c, b) /\ out' = NoOut
Busy(c, b) ==  /\ T!TBusy(c)
               /\ out' = [NoOut EXCEPT !.c = c, !.op = "busy"]
               /\ H("Busy", c, b)
InsertRow(c) == T!TInsertRow(c) /\ H("Insert", c, txn[c].b) /\ out' = NoOut
\* the writer runs to completion: remaining inserts and COMMIT (the coordinator of the replay lets it go)
Commit(c) ==   T!TCommit(c) /\ H("Commit", c, txn[c].b) /\ out' = NoOut
Abort(c) ==    T!TAbort(c) /\ H("Abort", c, txn[c].b) /\ out' = NoOut
Crash(c) ==    T!TCrash(c) /\ H("Crash", c, txn[c].b) /\ out' = NoOut
Reopen(c) ==   T!TReopen(c) /\ H("Reopen", c, None) /\ out' = NoOut

FilterResults(m, p, n) ==
  LET M == {r \in DiskRows : Match(r, m, p)}
  IN  IF Cardinality(M) <= n THEN {M} ELSE {S \in SUBSET M : Cardinality(S) = n}
Filter(c, m, p, n) == /\ alive[c] /\ txn[c] = NoTxn
                      /\ \E S \in FilterResults(m, p, n) : out' = [c |-> c, op |-> "filter", res |-> S, m |-> m, p |-> p, n |-> n]
                      /\ hist' = Append(hist, [op |-> "Filter", c |-> c, b |-> None, m |-> m, p |-> p, n |-> n])
                      /\ UNCHANGED <<disk, txn, alive, lock, journal>>
ListModules(c) ==     /\ alive[c] /\ txn[c] = NoTxn
                      /\ out' = [NoOut EXCEPT !.c = c, !.op = "modules", !.res = {RowMod[r] : r \in DiskRows}]
                      /\ hist' = Append(hist, [op |-> "ListModules", c |-> c, b |-> None, m |-> None, p |-> NoPrefix, n |-> 0])
                      /\ UNCHANGED <<disk, txn, alive, lock, journal>>

Next == \/ \E c \in Conn, b \in DOMAIN Batches : Begin(c, b) \/ Busy(c, b)
        \/ \E c \in Conn : InsertRow(c) \/ Commit(c) \/ Abort(c) \/ Crash(c) \/ Reopen(c) \/ ListModules(c)
        \/ \E c \in Conn, m \in Mods, p \in QPrefixes, n \in Limits : Filter(c, m, p, n)
Spec == Init /\ [][Next]_vars

(***************************************************************************)
(* Properties (C09)                                                        *)
(***************************************************************************)
\* a batch is visible entirely or not at all: disk only ever holds whole batches (by construction) and
\* what a reader sees is exactly the rows of the committed batches
Atomic == T!TAtomic
\* the invariants Apalache proves inductively for the core, checked here as well (bounded)
CoreInv == T!TIndInv
\* committed batches are never lost, also across crash and reopen
Durable == [][disk \subseteq disk']_vars
\* a query returns min(n, d) distinct rows, each with module m and a qualname that starts with p
FilterExact ==
  out.op = "filter" =>
    LET M == {r \in DiskRows : MatchP(r, out.m, out.p)}
    IN  /\ out.res \subseteq M
        /\ Cardinality(out.res) = IF Cardinality(M) <= out.n THEN Cardinality(M) ELSE out.n
ModulesExact == out.op = "modules" => out.res = {RowMod[r] : r \in DiskRows}
=============================================================================
