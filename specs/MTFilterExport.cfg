INIT Init
NEXT Next
