SPECIFICATION Spec
CONSTANTS
  Dev_RemoveByModule = FALSE
INVARIANT Inv_ExistingUnmoved
INVARIANT Inv_ConfinedOnly
CHECK_DEADLOCK FALSE
