------------------------------- MODULE MTCodec -------------------------------
(***************************************************************************)
(* I-layer of monkeytype/encoding.py: type_to_dict / type_from_dict        *)
(* transcribed over the abstract type grammar, with the decoder as a       *)
(* NAME-LOOKUP MACHINE over an environment (which names exist, and what    *)
(* they are bound to) - the part that the stale-trace property C10 needs.  *)
(*                                                                         *)
(* Encoded form (what the JSON says), again as [k, n, a, u] records:       *)
(*   enc0  n = "module:qualname"             no elem_types key             *)
(*   enc   n = "module:qualname", a = elems  elem_types list (may be <<>>) *)
(*   encu  n = "typing:Union",    u = elems  a Union's list, order-free    *)
(*   enctd n = "module:qualname", u = {encf} is_typed_dict                 *)
(*   encf  n = key, a = <<enc>>              one elem_types entry of a TD  *)
(***************************************************************************)
EXTENDS MTValues

CONSTANT Dev_EllipsisEncode   \* type_to_dict(Tuple[T, ...]) raises AttributeError on the Ellipsis argument

CErr(e) == Mk("err", e, <<>>, {})
IsCErr(t) == t.k = "err"
HasErr(S) == \E x \in S : IsCErr(x)
TheErr(S) == CHOOSE x \in S : IsCErr(x)

Enc0(mq)        == Mk("enc0", mq, <<>>, {})
Enc(mq, elems)  == Mk("enc", mq, elems, {})
EncU(S)         == Mk("encu", "typing:Union", <<>>, S)
EncTD(mq, flds) == Mk("enctd", mq, <<>>, flds)
EncF(key, e)    == Mk("encf", key, <<e>>, {})

ModQNOf(c) == IF c \in DOMAIN ModQN THEN ModQN[c] ELSE "unknown:" \o c

GenericName(k) == CASE k = "list" -> "typing:List" [] k = "set" -> "typing:Set" [] k = "dict" -> "typing:Dict"
                    [] k = "ddict" -> "typing:DefaultDict" [] k = "tuple" -> "typing:Tuple"
                    [] k = "typeof" -> "typing:Type" [] k = "iterator" -> "typing:Iterator"
                    [] k = "iterable" -> "typing:Iterable" [] k = "generator" -> "typing:Generator"

TDMod == "monkeytype.typing"

\* ---- type_to_dict ---------------------------------------------------------------------
RECURSIVE Encode(_)
SeqErr(s) == \E i \in 1..Len(s) : IsCErr(s[i])
Encode(t) ==
  CASE t.k = "any"      -> Enc0("typing:Any")
    [] t.k = "cls"      -> Enc0(ModQNOf(t.n))
    [] t.k = "callable" -> Enc0("typing:Callable")
    [] t.k = "union"    -> LET S == {Encode(m) : m \in t.u} IN IF HasErr(S) THEN TheErr(S) ELSE EncU(S)
    [] t.k = "tuplevar" -> IF Dev_EllipsisEncode THEN CErr("AttributeError")
                           ELSE Enc("typing:Tuple", <<Encode(t.a[1]), Enc0("builtins:ellipsis")>>)
    [] t.k \in {"list", "set", "dict", "ddict", "tuple", "typeof", "iterator", "iterable", "generator"} ->
         LET s == [i \in 1..Len(t.a) |-> Encode(t.a[i])]
         IN  IF SeqErr(s) THEN s[CHOOSE i \in 1..Len(s) : IsCErr(s[i])] ELSE Enc(GenericName(t.k), s)
    [] t.k = "td" ->
         LET part(kind) == {EncF(f.n, Encode(f.a[1])) : f \in {g \in t.u : g.k = kind}}
             all == {Encode(f.a[1]) : f \in t.u}
         IN  IF HasErr(all) THEN TheErr(all)
             ELSE EncTD(TDMod \o ":DUMMY_NAME",
                        {EncF("required_fields", EncTD(TDMod \o ":REQUIRED_TYPED_DICT_NAME", part("req"))),
                         EncF("optional_fields", EncTD(TDMod \o ":OPTIONAL_TYPED_DICT_NAME", part("opt")))})
    [] OTHER -> CErr("Unencodable")

\* ---- the environment --------------------------------------------------------------------
\* Env: "module:qualname" -> what get_name_in_module finds there:
\*   [k |-> "class", n |-> class name] | [k |-> "nontype"] | [k |-> "noattr"] | [k |-> "nomodule"]
\* names of the typing module and the hidden builtins are always there
EnvEntry(kind, name) == [k |-> kind, n |-> name]
FixtureEnv == [mq \in {ModQN[c] : c \in DOMAIN ModQN} |->
                 EnvEntry("class", CHOOSE c \in DOMAIN ModQN : ModQN[c] = mq)]
LookupEnv(env, mq) == IF mq \in DOMAIN env THEN env[mq] ELSE EnvEntry("nomodule", "")

TypingGeneric(mq) ==
  CASE mq = "typing:List" -> "list" [] mq = "typing:Set" -> "set" [] mq = "typing:Dict" -> "dict"
    [] mq = "typing:DefaultDict" -> "ddict" [] mq = "typing:Tuple" -> "tuple" [] mq = "typing:Type" -> "typeof"
    [] mq = "typing:Iterator" -> "iterator" [] mq = "typing:Iterable" -> "iterable"
    [] mq = "typing:Generator" -> "generator" [] OTHER -> ""

\* ---- type_from_dict -----------------------------------------------------------------------
RECURSIVE Decode(_, _)
DecodeTDFields(e, env) == {[key |-> f.n, ty |-> Decode(f.a[1], env)] : f \in e.u}
Decode(e, env) ==
  CASE e.k = "enctd" ->
         \* typed_dict_from_dict: TypedDict(qualname, {k: type_from_dict(v)}); an anonymous one is
         \* recognised by its two fields
         LET parts == DecodeTDFields(e, env)
             bad   == {p.ty : p \in parts}
         IN  IF HasErr(bad) THEN TheErr(bad)
             ELSE IF {p.key : p \in parts} = {"required_fields", "optional_fields"}
                     /\ \A p \in parts : p.ty.k = "tdpart"
                  THEN TTD(UNION {{Mk(IF p.key = "required_fields" THEN "req" ELSE "opt", f.n, f.a, {}) : f \in p.ty.u}
                                  : p \in parts})
                  ELSE Mk("tdpart", e.n, <<>>, {Mk("fld", p.key, <<p.ty>>, {}) : p \in parts})
    [] e.k = "encu"  -> LET S == {Decode(m, env) : m \in e.u} IN IF HasErr(S) THEN TheErr(S) ELSE MkUnion(S)
    [] e.k = "enc0" /\ e.n = "typing:Any"      -> TAny
    [] e.k = "enc0" /\ e.n = "typing:Callable" -> TCallable
    [] e.k = "enc" /\ TypingGeneric(e.n) # "" ->
         LET s == [i \in 1..Len(e.a) |-> Decode(e.a[i], env)]
         IN  IF SeqErr(s) THEN s[CHOOSE i \in 1..Len(s) : IsCErr(s[i])]
             ELSE Mk(TypingGeneric(e.n), "", s, {})
    [] e.k \in {"enc0", "enc"} ->
         LET ent == LookupEnv(env, e.n)
         IN  CASE ent.k = "class"    -> TCls(ent.n)       \* elem_types of a non-generic are ignored
               [] ent.k = "nontype"  -> CErr("InvalidTypeError")
               [] OTHER              -> CErr("NameLookupError")
    [] OTHER -> CErr("Undecodable")
=============================================================================
