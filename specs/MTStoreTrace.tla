---------------------------- MODULE MTStoreTrace ----------------------------
(***************************************************************************)
(* P-layer for C09 as a trace specification over what really happened on   *)
(* a real SQLite file shared by several processes.  One ndjson line per    *)
(* scenario {tid, events:[...]}; events, in real order:                    *)
(*  AddStart {c, b, rows:[{mod, qn, key}...]}  rows = the SERIALISABLE     *)
(*            traces of the batch (qn = code points, key = the other       *)
(*            columns as opaque text)                                      *)
(*  AddEnd   {c, b, ok}        add() returned (ok) or raised (~ok)         *)
(*  Crash    {c, b}            the writer process was killed inside add()  *)
(*  Filter   {c, m, p, n, res:[row...]}   p = <<0>> for "no prefix"         *)
(*  Modules  {c, res:[module...]}                                          *)
(*  QueryFailed {c, op}       filter / list_modules raised                  *)
(*  Check    {rows:[{mod, qn, key, cnt}...], integrity}  table contents    *)
(*            read through an independent connection                       *)
(*                                                                         *)
(* The spec does not know when a commit took effect.  A batch whose add()  *)
(* has not returned ok is UNDECIDED: every observation must be explained   *)
(* by the committed batches plus some set X of undecided batches, each     *)
(* taken whole (atomicity); what observations force is remembered, so a    *)
(* batch seen present can never disappear (durability) and a finished,     *)
(* failed add seen absent can never appear.                                *)
(***************************************************************************)
EXTENDS Naturals, Sequences, FiniteSets, TLC, SequencesExt, Json, IOUtils

Recs == ndJsonDeserialize(IOEnv.TRACE_FILE)
N == Len(Recs)

VARIABLES i, l,
          rowsOf,     \* batch id -> sequence of rows (function, grows)
          committed,  \* batches whose add() returned ok
          undecided,  \* batch id -> "flying" | "ended"      (started, not known to be committed)
          known,      \* batch id -> "in" | "out"            (what observations have forced)
          viol
vars == <<i, l, rowsOf, committed, undecided, known, viol>>

Empty == [x \in {} |-> 0]
Init == i = 1 /\ l = 0 /\ rowsOf = Empty /\ committed = {} /\ undecided = Empty /\ known = Empty /\ viol = {}

Row(r) == [mod |-> r.mod, qn |-> r.qn, key |-> r.key]
NoPrefix == <<0>>
PrefixOK(p, qn) == p = NoPrefix \/ (Len(p) <= Len(qn) /\ SubSeq(qn, 1, Len(p)) = p)

\* admissible sets of undecided batches that may be visible now
Admissible == {X \in SUBSET DOMAIN undecided :
                 /\ \A b \in DOMAIN known : known[b] = "in" => b \in X
                 /\ \A b \in DOMAIN known : (known[b] = "out" /\ undecided[b] = "ended") => b \notin X}

Visible(X) == committed \cup X
RowSet(B) == UNION {{Row(rowsOf[b][j]) : j \in 1..Len(rowsOf[b])} : b \in B}
Count(B, r) == LET per(b) == Cardinality({j \in 1..Len(rowsOf[b]) : Row(rowsOf[b][j]) = r})
                   RECURSIVE Sum(_)
                   Sum(S) == IF S = {} THEN 0 ELSE LET x == CHOOSE y \in S : TRUE IN per(x) + Sum(S \ {x})
               IN  Sum(B)

\* learn from the explaining sets
Learn(Xs) == [b \in DOMAIN undecided |->
                IF \A X \in Xs : b \in X THEN "in"
                ELSE IF \A X \in Xs : b \notin X THEN "out"
                ELSE IF b \in DOMAIN known THEN known[b] ELSE "unknown"]
Forget(kn) == [b \in {x \in DOMAIN kn : kn[x] # "unknown"} |-> kn[b]]

Ev == Recs[i].events[l + 1]

Observe(Xs, clause) ==
  IF Xs = {} THEN /\ viol' = viol \cup {clause} /\ UNCHANGED known
  ELSE /\ known' = Forget(Learn(Xs)) /\ UNCHANGED viol

Step ==
  /\ i <= N /\ l < Len(Recs[i].events)
  /\ LET e == Ev IN
     CASE e.ev = "AddStart" ->
            /\ rowsOf' = (e.b :> e.rows) @@ rowsOf
            /\ undecided' = (e.b :> "flying") @@ undecided
            /\ UNCHANGED <<committed, known, viol>>
       [] e.ev = "AddEnd" ->
            IF e.ok
            THEN /\ committed' = committed \cup {e.b}
                 /\ undecided' = [b \in DOMAIN undecided \ {e.b} |-> undecided[b]]
                 /\ known' = [b \in DOMAIN known \ {e.b} |-> known[b]]
                 \* an add that returned normally must not have been seen absent AFTER... (it may have been absent before)
                 /\ UNCHANGED <<rowsOf, viol>>
            ELSE /\ undecided' = [undecided EXCEPT ![e.b] = "ended"]
                 /\ UNCHANGED <<rowsOf, committed, known, viol>>
       [] e.ev = "Crash" ->
            /\ undecided' = [undecided EXCEPT ![e.b] = "ended"]
            /\ UNCHANGED <<rowsOf, committed, known, viol>>
       [] e.ev = "Filter" ->
            LET res == {Row(e.res[j]) : j \in 1..Len(e.res)}
                distinct == Cardinality(res) = Len(e.res)
                Expl == {X \in Admissible :
                           LET M == {r \in RowSet(Visible(X)) : r.mod = e.m /\ PrefixOK(e.p, r.qn)}
                           IN  /\ res \subseteq M
                               /\ Cardinality(res) = IF Cardinality(M) <= e.n THEN Cardinality(M) ELSE e.n}
            IN /\ IF ~distinct THEN /\ viol' = viol \cup {"FilterDistinct"} /\ UNCHANGED known
                  ELSE Observe(Expl, "FilterExact")
               /\ UNCHANGED <<rowsOf, committed, undecided>>
       [] e.ev = "Modules" ->
            LET res == {e.res[j] : j \in 1..Len(e.res)}
                Expl == {X \in Admissible : res = {r.mod : r \in RowSet(Visible(X))}}
            IN /\ IF Cardinality(res) # Len(e.res) THEN /\ viol' = viol \cup {"ModulesDistinct"} /\ UNCHANGED known
                  ELSE Observe(Expl, "ModulesExact")
               /\ UNCHANGED <<rowsOf, committed, undecided>>
       [] e.ev = "Check" ->
            LET got == {Row(e.rows[j]) : j \in 1..Len(e.rows)}
                cnt(r) == (CHOOSE j \in 1..Len(e.rows) : Row(e.rows[j]) = r)
                Expl == {X \in Admissible :
                           /\ got = RowSet(Visible(X))
                           /\ \A j \in 1..Len(e.rows) : e.rows[j].cnt = Count(Visible(X), Row(e.rows[j]))}
            IN /\ IF e.integrity # "ok" THEN /\ viol' = viol \cup {"Integrity"} /\ UNCHANGED known
                  ELSE Observe(Expl, "Atomic")
               /\ UNCHANGED <<rowsOf, committed, undecided>>
       [] e.ev = "QueryFailed" ->
            \* filter / list_modules raised.  While some add() is still in flight a reader may be told the
            \* database is busy; with no writer in flight a query must answer.
            /\ viol' = viol \cup (IF \E b \in DOMAIN undecided : undecided[b] = "flying" THEN {} ELSE {"QueryFails"})
            /\ UNCHANGED <<rowsOf, committed, undecided, known>>
       [] OTHER -> UNCHANGED <<rowsOf, committed, undecided, known, viol>>
  /\ l' = l + 1 /\ UNCHANGED i

EndTrace ==
  /\ i <= N /\ l = Len(Recs[i].events)
  /\ viol # {} => PrintT(<<"V", ToJson([tid |-> Recs[i].tid, viol |-> viol, drift |-> FALSE])>>)
  /\ i' = i + 1 /\ l' = 0 /\ rowsOf' = Empty /\ committed' = {} /\ undecided' = Empty /\ known' = Empty /\ viol' = {}

Done == /\ i = N + 1
        /\ PrintT(<<"DONE", ToJson([n |-> N])>>)
        /\ i' = N + 2 /\ UNCHANGED <<l, rowsOf, committed, undecided, known, viol>>

Next == Step \/ EndTrace \/ Done
Spec == Init /\ [][Next]_vars
=============================================================================
