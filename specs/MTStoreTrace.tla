---------------------------- MODULE MTStoreTrace ----------------------------
(***************************************************************************)
(* P-layer for C09 as a trace specification over what really happened on   *)
(* a real SQLite file shared by several processes.  One ndjson line per    *)
(* scenario {tid, events:[...]}; events, in real order:                    *)
(*  AddStart {c, b, rows:[{mod, qn, key}...]}  rows = the SERIALISABLE     *)
(*            traces of the batch (qn = code points, key = the other       *)
(*            columns as opaque text)                                      *)
(*  AddEnd   {c, b, ok}        add() returned (ok) or raised (~ok)         *)
(*  Crash    {c, b}            the writer process was killed inside add()  *)
(*  Filter   {c, m, p, n, res:[row...]}   p = <<0>> for "no prefix"         *)
(*  Modules  {c, res:[module...]}                                          *)
(*  QueryFailed {c, op}       filter / list_modules raised                  *)
(*  BigAddStart {c, b, size}  a batch of `size` distinct rows (too many to *)
(*            list); it is observed by                                     *)
(*  CheckCounts {counts:[{b, present, copies, size}], other, integrity}    *)
(*            present = distinct rows of batch b in the table, copies =    *)
(*            rows of b counting duplicates, other = rows of no big batch  *)
(*  Check    {rows:[{mod, qn, key, cnt}...], integrity}  table contents    *)
(*            read through an independent connection                       *)
(*  QueryStart {c}   FREE-RUNNING processes only: connection c is about to *)
(*            ask (the next Filter / Modules / Check of c is the answer).  *)
(*            The answer reflects the table at SOME moment between the two *)
(*            events: batches whose add() returned ok in between may or    *)
(*            may not be visible.  Scheduled replays have no QueryStart    *)
(*            (nothing else runs during a query).                          *)
(*                                                                         *)
(* The spec does not know when a commit took effect.  A batch whose add()  *)
(* has not returned ok is UNDECIDED: every observation must be explained   *)
(* by the committed batches plus some set X of undecided batches, each     *)
(* taken whole (atomicity); what observations force is remembered, so a    *)
(* batch seen present can never disappear (durability) and a finished,     *)
(* failed add seen absent can never appear.                                *)
(***************************************************************************)
EXTENDS Naturals, Sequences, FiniteSets, TLC, SequencesExt, Json, IOUtils

Recs == ndJsonDeserialize(IOEnv.TRACE_FILE)
N == Len(Recs)

VARIABLES i, l,
          big,        \* ids of batches announced by BigAddStart (observed by counts only)
          rowsOf,     \* batch id -> sequence of rows (function, grows)
          committed,  \* batches whose add() returned ok
          undecided,  \* batch id -> "flying" | "ended"      (started, not known to be committed)
          known,      \* batch id -> "in" | "out"            (what observations have forced)
          qstart,     \* connection -> the committed set when its running query started (free-running traces)
          viol
vars == <<i, l, big, rowsOf, committed, undecided, known, qstart, viol>>

Empty == [x \in {} |-> 0]
Init == i = 1 /\ l = 0 /\ big = {} /\ rowsOf = Empty /\ committed = {} /\ undecided = Empty /\ known = Empty /\ qstart = Empty /\ viol = {}

Row(r) == [mod |-> r.mod, qn |-> r.qn, key |-> r.key]
NoPrefix == <<0>>
PrefixOK(p, qn) == p = NoPrefix \/ (Len(p) <= Len(qn) /\ SubSeq(qn, 1, Len(p)) = p)

\* admissible sets of undecided batches that may be visible now
Admissible == {X \in SUBSET DOMAIN undecided :
                 /\ \A b \in DOMAIN known : known[b] = "in" => b \in X
                 /\ \A b \in DOMAIN known : (known[b] = "out" /\ undecided[b] = "ended") => b \notin X}

Visible(X) == committed \cup X
\* what connection c may see: everything committed before its query started, plus any of the batches committed since
Base(c)  == IF c \in DOMAIN qstart THEN qstart[c] ELSE committed
Maybe(c) == committed \ Base(c)
VisibleTo(c, X, Y) == Base(c) \cup X \cup Y
RowSet(B) == UNION {{Row(rowsOf[b][j]) : j \in 1..Len(rowsOf[b])} : b \in B}
Count(B, r) == LET per(b) == Cardinality({j \in 1..Len(rowsOf[b]) : Row(rowsOf[b][j]) = r})
                   RECURSIVE Sum(_)
                   Sum(S) == IF S = {} THEN 0 ELSE LET x == CHOOSE y \in S : TRUE IN per(x) + Sum(S \ {x})
               IN  Sum(B)

\* learn from the explaining sets
Learn(Xs) == [b \in DOMAIN undecided |->
                IF \A X \in Xs : b \in X THEN "in"
                ELSE IF \A X \in Xs : b \notin X THEN "out"
                ELSE IF b \in DOMAIN known THEN known[b] ELSE "unknown"]
Forget(kn) == [b \in {x \in DOMAIN kn : kn[x] # "unknown"} |-> kn[b]]

Ev == Recs[i].events[l + 1]

Observe(Xs, clause) ==
  IF Xs = {} THEN /\ viol' = viol \cup {clause} /\ UNCHANGED known
  ELSE /\ known' = Forget(Learn(Xs)) /\ UNCHANGED viol

Step ==
  /\ i <= N /\ l < Len(Recs[i].events)
  /\ LET e == Ev IN
     CASE e.ev = "AddStart" ->
            /\ rowsOf' = (e.b :> e.rows) @@ rowsOf
            /\ undecided' = (e.b :> "flying") @@ undecided
            /\ UNCHANGED <<committed, known, viol, big>>
       [] e.ev = "BigAddStart" ->
            /\ rowsOf' = (e.b :> <<>>) @@ rowsOf
            /\ undecided' = (e.b :> "flying") @@ undecided
            /\ big' = big \cup {e.b}
            /\ UNCHANGED <<committed, known, viol>>
       [] e.ev = "CheckCounts" ->
            \* every big batch is in the table entirely (once) or not at all, committed ones entirely, and what was
            \* seen present stays present (the same learning as for listed batches, on counts)
            LET cnt(b) == CHOOSE x \in {e.counts[j] : j \in 1..Len(e.counts)} : x.b = b
                seen == {e.counts[j].b : j \in 1..Len(e.counts)}
                okOne(b) == /\ b \in seen
                            /\ cnt(b).present \in {0, cnt(b).size} /\ cnt(b).copies = cnt(b).present
                            /\ (b \in committed => cnt(b).present = cnt(b).size)
                            /\ ((b \in DOMAIN known /\ known[b] = "in") => cnt(b).present = cnt(b).size)
                            /\ ((b \in DOMAIN known /\ known[b] = "out" /\ b \in DOMAIN undecided /\ undecided[b] = "ended")
                                  => cnt(b).present = 0)
                good == e.integrity = "ok" /\ e.other = 0 /\ \A b \in big : okOne(b)
            IN /\ viol' = viol \cup (IF e.integrity # "ok" THEN {"Integrity"} ELSE IF good THEN {} ELSE {"Atomic"})
               /\ known' = IF good
                           THEN [b \in (DOMAIN known \cup (big \cap DOMAIN undecided)) |->
                                   IF b \in big /\ b \in DOMAIN undecided
                                   THEN (IF cnt(b).present = cnt(b).size /\ cnt(b).size > 0 THEN "in"
                                         ELSE IF cnt(b).size > 0 THEN "out" ELSE "in")
                                   ELSE known[b]]
                           ELSE known
               /\ UNCHANGED <<rowsOf, committed, undecided, big>>
       [] e.ev = "AddEnd" ->
            IF e.ok
            THEN /\ committed' = committed \cup {e.b}
                 /\ undecided' = [b \in DOMAIN undecided \ {e.b} |-> undecided[b]]
                 /\ known' = [b \in DOMAIN known \ {e.b} |-> known[b]]
                 \* an add that returned normally must not have been seen absent AFTER... (it may have been absent before)
                 /\ UNCHANGED <<rowsOf, viol, big>>
            ELSE /\ undecided' = [undecided EXCEPT ![e.b] = "ended"]
                 /\ UNCHANGED <<rowsOf, committed, known, viol, big>>
       [] e.ev = "Crash" ->
            /\ undecided' = [undecided EXCEPT ![e.b] = "ended"]
            /\ UNCHANGED <<rowsOf, committed, known, viol, big>>
       [] e.ev = "Filter" ->
            LET res == {Row(e.res[j]) : j \in 1..Len(e.res)}
                distinct == Cardinality(res) = Len(e.res)
                Expl == {X \in Admissible : \E Y \in SUBSET Maybe(e.c) :
                           LET M == {r \in RowSet(VisibleTo(e.c, X, Y)) : r.mod = e.m /\ PrefixOK(e.p, r.qn)}
                           IN  /\ res \subseteq M
                               /\ Cardinality(res) = IF Cardinality(M) <= e.n THEN Cardinality(M) ELSE e.n}
            IN /\ IF ~distinct THEN /\ viol' = viol \cup {"FilterDistinct"} /\ UNCHANGED known
                  ELSE Observe(Expl, "FilterExact")
               /\ UNCHANGED <<rowsOf, committed, undecided, big>>
       [] e.ev = "Modules" ->
            LET res == {e.res[j] : j \in 1..Len(e.res)}
                Expl == {X \in Admissible : \E Y \in SUBSET Maybe(e.c) : res = {r.mod : r \in RowSet(VisibleTo(e.c, X, Y))}}
            IN /\ IF Cardinality(res) # Len(e.res) THEN /\ viol' = viol \cup {"ModulesDistinct"} /\ UNCHANGED known
                  ELSE Observe(Expl, "ModulesExact")
               /\ UNCHANGED <<rowsOf, committed, undecided, big>>
       [] e.ev = "Check" ->
            LET got == {Row(e.rows[j]) : j \in 1..Len(e.rows)}
                cnt(r) == (CHOOSE j \in 1..Len(e.rows) : Row(e.rows[j]) = r)
                Expl == {X \in Admissible : \E Y \in SUBSET Maybe("chk") :
                           /\ got = RowSet(VisibleTo("chk", X, Y))
                           /\ \A j \in 1..Len(e.rows) : e.rows[j].cnt = Count(VisibleTo("chk", X, Y), Row(e.rows[j]))}
            IN /\ IF e.integrity # "ok" THEN /\ viol' = viol \cup {"Integrity"} /\ UNCHANGED known
                  ELSE Observe(Expl, "Atomic")
               /\ UNCHANGED <<rowsOf, committed, undecided, big>>
       [] e.ev = "QueryFailed" ->
            \* filter / list_modules raised.  While some add() is still in flight a reader may be told the
            \* database is busy; with no writer in flight a query must answer.
            \* (free-running: a writer that finished while the query was running counts as in flight)
            /\ viol' = viol \cup (IF (\E b \in DOMAIN undecided : undecided[b] = "flying") \/ (e.c \in DOMAIN qstart /\ Maybe(e.c) # {})
                                  THEN {} ELSE {"QueryFails"})
            /\ UNCHANGED <<rowsOf, committed, undecided, known, big>>
       [] OTHER -> UNCHANGED <<rowsOf, committed, undecided, known, viol, big>>
  /\ qstart' = LET e == Ev IN
                IF e.ev = "QueryStart" THEN (e.c :> committed) @@ qstart
                ELSE IF e.ev \in {"Filter", "Modules", "QueryFailed"} /\ e.c \in DOMAIN qstart
                THEN [c \in DOMAIN qstart \ {e.c} |-> qstart[c]]
                ELSE IF e.ev = "Check" /\ "chk" \in DOMAIN qstart THEN [c \in DOMAIN qstart \ {"chk"} |-> qstart[c]]
                ELSE qstart
  /\ l' = l + 1 /\ UNCHANGED i

EndTrace ==
  /\ i <= N /\ l = Len(Recs[i].events)
  /\ viol # {} => PrintT(<<"V", ToJson([tid |-> Recs[i].tid, viol |-> viol, drift |-> FALSE])>>)
  /\ i' = i + 1 /\ l' = 0 /\ big' = {} /\ rowsOf' = Empty /\ committed' = {} /\ undecided' = Empty /\ known' = Empty /\ qstart' = Empty /\ viol' = {}

Done == /\ i = N + 1
        /\ PrintT(<<"DONE", ToJson([n |-> N])>>)
        /\ i' = N + 2 /\ UNCHANGED <<l, big, rowsOf, committed, undecided, known, qstart, viol>>

Next == Step \/ EndTrace \/ Done
Spec == Init /\ [][Next]_vars
=============================================================================
