------------------------------- MODULE MTDecode -------------------------------
(***************************************************************************)
(* C10: cli.get_stub as a transition system over the rows the store        *)
(* returns.  Each row (thunk) is decoded in turn; a MonkeyTypeError        *)
(* (NameLookupError, InvalidTypeError) is counted and skipped, anything    *)
(* else would abort the command.  What each KIND of stale row does to the  *)
(* decoder is derived from MTCodec's name-lookup machine:                  *)
(*   module / submodule removed, function removed, argument / return /     *)
(*   yield class removed, function in a local scope  -> NameLookupError    *)
(*   function now a non-function / a class / a settable property, class    *)
(*   name bound to a non-type                         -> InvalidTypeError  *)
(*   parameter names that no longer exist             -> decodes           *)
(***************************************************************************)
EXTENDS Naturals, Sequences, FiniteSets, TLC, MTDecodeKinds

CONSTANTS Kinds, MaxRows,
          Dev_NoWrapsEscapes   \* (as the code was until fix 1e972f6) a name bound to a function-local function - the wrapper of a
                               \* decorator without functools.wraps, a closure - or to a property with a non-function getter
                               \* DECODES, and stub generation later raises OUTSIDE the per-row try

EscapingKinds == {"nowraps", "now_closure", "prop_getter_nonfunction", "alias_of_removed", "now_proxy"}

VARIABLES rows, pos, traces, failed, rc, phase
vars == <<rows, pos, traces, failed, rc, phase>>

Init == /\ rows = <<>> /\ pos = 0 /\ traces = <<>> /\ failed = 0 /\ rc = 0 /\ phase = "building"

\* the store's content: any sequence of row kinds up to the bound, built one row at a time
AddRow(kind) == /\ phase = "building" /\ Len(rows) < MaxRows
                /\ rows' = Append(rows, kind) /\ UNCHANGED <<pos, traces, failed, rc, phase>>
StartCommand == /\ phase = "building" /\ phase' = "decoding" /\ UNCHANGED <<rows, pos, traces, failed, rc>>

DecodeNext == /\ phase = "decoding" /\ pos < Len(rows)
              /\ LET o == IF Dev_NoWrapsEscapes /\ rows[pos + 1] \in EscapingKinds THEN "ok" ELSE Outcome(rows[pos + 1]) IN
                 IF o \in {"NameLookupError", "InvalidTypeError"}      \* except MonkeyTypeError
                 THEN failed' = failed + 1 /\ traces' = traces
                 ELSE failed' = failed /\ traces' = Append(traces, rows[pos + 1])
              /\ pos' = pos + 1 /\ UNCHANGED <<rows, rc, phase>>
Build == /\ phase = "decoding" /\ pos = Len(rows)
         /\ IF Dev_NoWrapsEscapes /\ \E j \in 1..Len(traces) : traces[j] \in EscapingKinds
            THEN rc' = 1 /\ phase' = "crashed"
            ELSE rc' = 0 /\ phase' = IF \A j \in 1..Len(traces) : ~HereKind(traces[j]) THEN "no_traces" ELSE "stub"
         /\ UNCHANGED <<rows, pos, traces, failed>>
Next == (\E kind \in Kinds : AddRow(kind)) \/ StartCommand \/ DecodeNext \/ Build
Spec == Init /\ [][Next]_vars

NeverFatal == phase # "crashed" /\ rc = 0
SkipsExactly == phase \in {"stub", "no_traces"} =>
                  /\ failed = Cardinality({j \in 1..Len(rows) : ~DecodableKind(rows[j])})
                  /\ Len(traces) = Cardinality({j \in 1..Len(rows) : DecodableKind(rows[j])})
NoTracesIff == phase = "no_traces" <=> (phase \notin {"building", "decoding", "crashed"} /\ \A j \in 1..Len(rows) : ~HereKind(rows[j]))
=============================================================================
