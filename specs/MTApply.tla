------------------------------- MODULE MTApply -------------------------------
(***************************************************************************)
(* C15 / C16: applying a stub to its module's source.                      *)
(*                                                                         *)
(* State of one application, in the abstract:                              *)
(*   src / res imports: sets of items [kind ("import"|"from"), module,     *)
(*       name, alias, block ("top" | "func" | "tc" = under                 *)
(*       `if TYPE_CHECKING:`)]                                             *)
(*   stub imports: items [module, name]                                    *)
(*   positions: [f, pos, src, stub, res] annotation TEXT per parameter /   *)
(*       return ("" = none)                                                *)
(*   facts decided by CPython inside the projection: parses, erasure       *)
(*       equality, idempotence, importability, same behaviour, future-     *)
(*       import first, which names the result needs at run time            *)
(*                                                                         *)
(* P-layer: the clauses of C15 and C16.                                    *)
(* I-layer: cli.get_newly_imported_items, _remove_typing_module and        *)
(* RemoveImportsTransformer transcribed - which SOURCE imports the         *)
(* confinement step deletes: `import x` is matched by module name only,    *)
(* `from x import y` by module and name, aliases not compared, wherever    *)
(* the statement stands.                                                   *)
(***************************************************************************)
EXTENDS Naturals, Sequences, FiniteSets, TLC

CONSTANT Dev_RemoveByModule   \* RemoveImportsTransformer matches `import x` by module name only and ignores aliases

Key(i) == [kind |-> i.kind, module |-> i.module, name |-> i.name, alias |-> i.alias]

\* ---- P-layer -----------------------------------------------------------------------------
PositionViol(p, overwrite) ==
       \* an existing annotation is left exactly as it was written (raw text), not merely with the same meaning
       (IF p.src_raw # "" /\ ~overwrite /\ p.res_raw # p.src_raw THEN {"ExistingKept"} ELSE {})
  \cup (IF p.src = "" /\ p.stub # "" /\ p.res # p.stub THEN {"AnnotationsPresent"} ELSE {})
  \cup (IF p.src # "" /\ overwrite /\ p.stub # "" /\ p.res # p.stub THEN {"Overwritten"} ELSE {})
  \cup (IF p.src = "" /\ p.stub = "" /\ p.res # "" THEN {"NothingInvented"} ELSE {})

\* every import item of the source is still there, in the same block, with its alias
ExistingUnmoved(srcI, resI) == \A i \in srcI : \E j \in resI : Key(j) = Key(i) /\ j.block = i.block
\* an item sits under TYPE_CHECKING only if the source had it there, or it is new and needed by annotations only
ConfinedOnly(srcI, resI) ==
  \A j \in resI : j.block = "tc" =>
     \/ \E i \in srcI : Key(i) = Key(j) /\ i.block = "tc"
     \/ (~(\E i \in srcI : Key(i) = Key(j)) /\ ~j.runtime)
\* every new, non-typing, annotation-only import is confined
ConfinedAll(srcI, resI) ==
  \A j \in resI : (~(\E i \in srcI : Key(i) = Key(j)) /\ j.module # "typing" /\ j.module # "__future__" /\ ~j.runtime)
                    => j.block = "tc"
\* what generated code needs when the module is imported is imported at run time
RuntimeNeeds(resI) == \A j \in resI : j.runtime => j.block # "tc"

\* ---- I-layer -----------------------------------------------------------------------------
Newly(stubI, srcI) == {s \in stubI : ~(\E i \in srcI : i.kind = "from" /\ i.module = s.module /\ i.name = s.name /\ i.alias = "")}
Moved(stubI, srcI) == {s \in Newly(stubI, srcI) : s.module # "typing"}
DeletedFromSource(stubI, srcI) ==
  IF ~Dev_RemoveByModule THEN {} ELSE
  {i \in srcI : \/ (i.kind = "import" /\ \E m \in Moved(stubI, srcI) : m.module = i.module)
                \/ (i.kind = "from" /\ \E m \in Moved(stubI, srcI) : m.module = i.module /\ m.name = i.name)}
=============================================================================
