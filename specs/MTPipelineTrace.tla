--------------------------- MODULE MTPipelineTrace ---------------------------
(***************************************************************************)
(* P-layer for C01 / C14 / C06 (end to end) over observed pipeline runs.   *)
(* One ndjson line per run or group of runs:                               *)
(*  Sound  {tid, k, positions:[{f, pos, vals:[Value...], ann}]}            *)
(*         ann = the stub's annotation text evaluated with the names the   *)
(*         stub provides (or unresolved / absent); vals = what the         *)
(*         workload really passed / returned / yielded there (C01)         *)
(*         + tds:[{name, nkeys}] + stored:[Type...] for C06                *)
(*  Same   {tid, obs:[[{f, pos, ann}...] ...], tdobs:[[{name, keys}]...]}  *)
(*         stubs generated from the same trace SET along different orders, *)
(*         batches, duplications and hash seeds (C14)                      *)
(***************************************************************************)
EXTENDS MTCodec, Json, IOUtils

Recs == ndJsonDeserialize(IOEnv.TRACE_FILE)
N == Len(Recs)
VARIABLES i
vars == <<i>>
Init == i = 1

Unres(t) == t.k = "unresolved"
RECURSIVE HasUnres(_)
HasUnres(t) == Unres(t) \/ (\E j \in 1..Len(t.a) : HasUnres(t.a[j])) \/ (\E m \in t.u : HasUnres(m))

\* the value holds, somewhere, a non-empty dict all of whose keys are strings (the only thing a TypedDict may come from)
RECURSIVE HasRecord(_)
HasRecord(v) == \/ (v.k = "dict" /\ Len(v.a) > 0 /\ \A j \in 1..Len(v.a) : v.a[j].a[1].k = "str")
                \/ \E j \in 1..Len(v.a) : HasRecord(v.a[j])

\* C05, end to end: without a rewriter the annotation of a traced position is the inferred
\* type itself (generated TypedDict classes read as their fields) - every alternative in it must be witnessed by a value really seen THERE.  Parameters with a None default are
\* exempt (the renderer shows them as Optional whatever was passed).
TightViol(p, r) ==
  LET ann == J2T(p.ann) IN
  IF r.tight /\ ann.k # "absent" /\ ~HasUnres(ann) /\ Len(p.vals) > 0 /\ ~p.defnone
     /\ ~Wit(ann, {J2T(p.vals[j]) : j \in 1..Len(p.vals)}, FALSE)
  THEN {"EndToEndTight"} ELSE {}

PosViol(p) ==
  LET ann == J2T(p.ann) IN
  IF ann.k = "absent" THEN {}
  ELSE IF HasUnres(ann) THEN {"AnnotationResolves"}
  ELSE   (IF \A j \in 1..Len(p.vals) : Member(J2T(p.vals[j]), ann) THEN {} ELSE {"EndToEndSound"})
         \* C06, end to end: a TypedDict in the annotation of a position needs a record among the values seen there
    \cup (IF Len(p.vals) > 0 /\ AllTDs(ann) # {} /\ ~(\E j \in 1..Len(p.vals) : HasRecord(J2T(p.vals[j]))) THEN {"TypedDictOnlyFromRecords"} ELSE {})

TDViol(r) ==
       (IF \E j \in 1..Len(r.tds) : (r.k = 0 \/ r.tds[j].nkeys > r.k \/ r.tds[j].nkeys < 1) THEN {"StubTDBound"} ELSE {})
  \* stored = the JSON of the rows (abstract form); the spec's own Decode turns it into a type
  \cup (IF \E j \in 1..Len(r.stored) :
            LET t == Decode(J2T(r.stored[j]), FixtureEnv)
            IN  ~IsCErr(t) /\ ~(IF r.k = 0 THEN AllTDs(t) = {} ELSE TDBoundOK(t, r.k))
        THEN {"StoredTDBound"} ELSE {})

ObsSet(o) == {[f |-> o[j].f, pos |-> o[j].pos, ann |-> Norm(J2T(o[j].ann))] : j \in 1..Len(o)}
TDSet(o) == {[name |-> o[j].name, keys |-> {o[j].keys[h] : h \in 1..Len(o[j].keys)}] : j \in 1..Len(o)}

Viol(r) ==
  IF r.ev = "Sound"
  THEN UNION {PosViol(r.positions[j]) : j \in 1..Len(r.positions)} \cup TDViol(r)
       \cup UNION {TightViol(r.positions[j], r) : j \in 1..Len(r.positions)}
       \* beyond the listed properties ("X:" = extended specification): the in-memory StubIndexBuilder, fed the
       \* decoded traces, builds the same stub as the store -> CLI path without a rewriter
       \cup (IF ~r.ib_agrees THEN {"X:IndexBuilderAgrees"} ELSE {})
  ELSE   (IF \E j \in 2..Len(r.obs) : ObsSet(r.obs[j]) # ObsSet(r.obs[1]) THEN {"OrderAndProcessFree"} ELSE {})
    \cup (IF \E j \in 2..Len(r.tdobs) : TDSet(r.tdobs[j]) # TDSet(r.tdobs[1]) THEN {"TypedDictClassesOrderFree"} ELSE {})

Step == /\ i <= N
        /\ LET v == Viol(Recs[i]) IN
           v # {} => PrintT(<<"V", ToJson([tid |-> Recs[i].tid, viol |-> v, drift |-> FALSE])>>)
        /\ i' = i + 1
Done == /\ i = N + 1 /\ PrintT(<<"DONE", ToJson([n |-> N])>>) /\ i' = N + 2
Next == Step \/ Done
Spec == Init /\ [][Next]_vars
=============================================================================
