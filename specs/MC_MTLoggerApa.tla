--------------------------- MODULE MC_MTLoggerApa ---------------------------
(***************************************************************************)
(* Apalache wrapper for MTLogger: an inductive invariant, so NoLoss,       *)
(* MainNeverKept and OnlyLogged hold for EVERY number of steps (TLC checks *)
(* them to a depth bound).  Buffers are bounded by MaxBuf as in the model. *)
(*   apalache-mc check --init=IndInit --inv=IndInv --length=1 MC_MTLoggerApa.tla   (step)  *)
(*   apalache-mc check --init=Init --inv=IndInv --length=0 MC_MTLoggerApa.tla      (base)  *)
(***************************************************************************)
EXTENDS Integers, Sequences, FiniteSets, Apalache

NLoggers == 2
Traces == {1, 2, 3}
MainTraces == {3}
MaxBuf == 3

VARIABLES
  \* @type: Int -> Seq(Int);
  buf,
  \* @type: Set(Int);
  store,
  \* @type: Bool;
  avail,
  \* @type: Set(Int);
  logged,
  \* @type: Seq({op: Str, l: Int, t: Int, ok: Bool});
  hist

INSTANCE MTLogger

TypeOK == /\ DOMAIN buf = Loggers
          /\ \A l \in Loggers : Len(buf[l]) <= MaxBuf /\ \A t \in RangeOf(buf[l]) : t \in Traces
          /\ store \subseteq Traces /\ logged \subseteq Traces

IndInv == TypeOK /\ NoLoss /\ MainNeverKept /\ OnlyLogged /\ BufferedWasLogged

IndInit == /\ buf = Gen(3) /\ store = Gen(3) /\ avail = Gen(1) /\ logged = Gen(3) /\ hist = Gen(2)
           /\ IndInv
=============================================================================
