---------------------------- MODULE MTInferExport ----------------------------
(***************************************************************************)
(* Exports the value universes of MTInferMC (and some larger ones) so that *)
(* the replayer enumerates exactly the histories TLC enumerates: for the   *)
(* free machine Observe(v) the behaviours to depth D are the sequences     *)
(* over the universe, so the universe plus the bound IS the behaviour set  *)
(* (DESIGN.md 5, "free machines").  Environment: UNAME, OUT_FILE.          *)
(***************************************************************************)
EXTENDS MTUniverse, Json, IOUtils

UName == IOEnv.UNAME

U == CASE UName = "small1" -> AtomsSmall \cup Containers(AtomsSmall, Hashable(AtomsSmall), KeysStd, 2)
       [] UName = "mid1"   -> AtomsMid \cup Containers(AtomsSmall, Hashable(AtomsSmall), KeysStd, 2)
       [] UName = "full1"  -> AtomsFull \cup Containers(AtomsMid, Hashable(AtomsMid), KeysStd, 2)
       [] UName = "tiny2"  -> LET A0 == {VAtom("int"), VStr("a")}
                                  L1 == A0 \cup ContainersOf({"list", "dict", "tuple"}, A0, A0, {VStr("a"), VStr("b")}, 2)
                              IN  L1 \cup ContainersOf({"list", "dict", "tuple", "ddict"}, L1, A0, {VStr("a"), VStr("b")}, 1)
       [] UName = "deep2"  -> LET A0 == {VAtom("int"), VStr("a"), VAtom("NoneType")}
                                  L1 == A0 \cup Containers(A0, A0, {VStr("a"), VStr("b"), VAtom("int")}, 2)
                              IN  L1 \cup ContainersOf({"list", "dict", "tuple", "set", "ddict"}, L1, A0, {VStr("a"), VStr("b")}, 2)
       \* records: containers holding TWO dicts with overlapping key sets and different value types (what merges into
       \* TypedDicts with required AND optional keys), alone and next to non-dict values
       [] UName = "recs"   -> LET I == VAtom("int")  S == VStr("s")  Nn == VAtom("NoneType")
                                  D(ps) == VDict(ps)
                                  Pool == {D(<<VPair(VStr("a"), I)>>), D(<<VPair(VStr("a"), I), VPair(VStr("b"), S)>>),
                                           D(<<VPair(VStr("b"), S)>>), D(<<VPair(VStr("a"), S)>>), D(<<>>),
                                           D(<<VPair(VStr("a"), I), VPair(VStr("b"), Nn)>>), D(<<VPair(I, I)>>),
                                           D(<<VPair(VStr("c"), VList(<<I>>))>>),
                                           \* same keys as {a: int, b: str}, inserted in the other order, value types swapped
                                           D(<<VPair(VStr("b"), I), VPair(VStr("a"), S)>>),
                                           D(<<VPair(VStr("a"), I), VPair(VStr("b"), I)>>),
                                           \* string keys that cannot be fields of a class-syntax TypedDict
                                           D(<<VPair(VStr("content-type"), I)>>), D(<<VPair(VStr("class"), S), VPair(VStr("a"), I)>>),
                                           \* identifier keys outside ASCII ({u+XXXX} stands for the character: the harness writes
                                           \* the micro sign, the fi ligature next to plain "field", a fullwidth x) - equal only to
                                           \* themselves, whatever Unicode normalisation would make of them
                                           D(<<VPair(VStr("{u+00b5}s"), I)>>), D(<<VPair(VStr("{u+fb01}eld"), I), VPair(VStr("field"), S)>>),
                                           D(<<VPair(VStr("{u+ff58}"), I), VPair(VStr("a"), S)>>),
                                           \* a key that is NOT a string but hashes and compares like the string "a"
                                           D(<<VPair(VAtom("mtfx.shapes.StrLike"), I)>>)}
                                  \* (None is a member of the pool too: a dict NEXT TO None inside one container)
                                  Two == {<<x, y>> : x \in Pool \cup {Nn}, y \in Pool \cup {Nn}}
                              IN  Pool \cup {I, Nn, S}
                                  \cup {VList(p) : p \in Two} \cup {VTuple(<<VList(p)>>) : p \in Two}
                                  \cup {VDict(<<VPair(VStr("k"), VList(p))>>) : p \in Two}
                                  \cup {VList(<<VList(p), I>>) : p \in Two}
                                  \cup {VDict(<<VPair(VStr("x"), p[1]), VPair(VStr("y"), p[2])>>) : p \in Two}
                                  \cup {VSet(<<VTuple(<<I, S>>)>>), VList(<<VList(<<>>), VList(<<I>>)>>)}
                                  \* keys that are instances of a str subclass
                                  \cup {VDict(<<VPair(VStrSub("a", "mtfx.shapes.MyStr"), I), VPair(VStrSub("b", "mtfx.shapes.MyStr"), I)>>),
                                        VDict(<<VPair(VStrSub("a", "mtfx.shapes.MyStr"), I)>>),
                                        VDict(<<VPair(VStrSub("a", "mtfx.shapes.MyStr"), I), VPair(VStr("b"), S)>>),
                                        VList(<<VStrSub("a", "mtfx.shapes.MyStr"), VStr("b")>>)}
                                  \* members of ONE Python class with different MonkeyType types, in sets and as dict keys
                                  \cup {VSet(<<VTuple(<<I, I>>), VTuple(<<S, S>>)>>), VSet(<<VTuple(<<I>>), VTuple(<<>>)>>),
                                        VSet(<<VClassObj("mtfx.shapes.A"), VClassObj("mtfx.shapes.B")>>),
                                        VDict(<<VPair(VTuple(<<I>>), I), VPair(VTuple(<<S>>), I)>>),
                                        VDDict(<<VPair(VTuple(<<I>>), I), VPair(VTuple(<<S>>), S)>>),
                                        VDict(<<VPair(VClassObj("mtfx.shapes.A"), I), VPair(VClassObj("int"), I)>>),
                                        VSet(<<VFunc("function"), VFunc("builtin_function_or_method")>>)}
       \* C06: dicts with 0..12 keys (string, non-string, mixed), nested in every container kind
       [] UName = "wide"   -> LET KS == {VStr("k01"), VStr("k02"), VStr("k03"), VStr("k04"), VStr("k05"), VStr("k06"),
                                         VStr("k07"), VStr("k08"), VStr("k09"), VStr("k10"), VStr("k11"), VStr("k12")}
                                  Prefix(n) == {x \in KS : \E j \in 1..n : x.n = (IF j < 10 THEN "k0" ELSE "k1") \o ToString(j % 10)}
                                  Mkd(X, v) == LET ks == SetToSeq(X) IN VDict([i \in 1..Len(ks) |-> VPair(ks[i], v)])
                                  W == {Mkd(X, VAtom("int")) : X \in {KS0 \in SUBSET KS : \E n \in 0..12 : KS0 = {VStr(IF j < 10 THEN "k0" \o ToString(j) ELSE "k1" \o ToString(j - 10)) : j \in 1..n}}}
                                       \cup {Mkd({VStr("k01"), VAtom("int")}, VAtom("int")), Mkd({VAtom("int")}, VStr("a")),
                                             Mkd({VStr("k01"), VStr("k02")}, VStr("a")), Mkd({VStr("k02"), VStr("k03")}, VAtom("int"))}
                              IN  W \cup {VList(<<x>>) : x \in W} \cup {VTuple(<<x>>) : x \in W}
                                    \cup {VDict(<<VPair(VStr("k01"), x)>>) : x \in W}
                                    \cup {VDDict(<<VPair(VStr("k01"), x)>>) : x \in W}
                                    \cup {VDict(<<VPair(VAtom("int"), x)>>) : x \in W}
                                    \cup {VList(<<x, VAtom("int")>>) : x \in W}

ASSUME JsonSerialize(IOEnv.OUT_FILE, SetToSeq(U))
ASSUME PrintT(<<"USIZE", Cardinality(U)>>)

VARIABLE x
Init == x = 0
Next == x' = x
=============================================================================
