--------------------------------- MODULE MTRun ---------------------------------
(***************************************************************************)
(* Specification growth beyond the listed properties: the life cycle of    *)
(* `monkeytype run [-m] script args...` (monkeytype/cli.py run_handler,    *)
(* monkeytype/__init__.py trace, monkeytype/tracing.py trace_calls,        *)
(* monkeytype/db/base.py CallTraceStoreLogger).                            *)
(*                                                                         *)
(*   old_argv = sys.argv.copy()                                            *)
(*   try:                                                                  *)
(*     with trace(config):              -- install the tracer              *)
(*        sys.argv = [script] + args                                       *)
(*        runpy.run_path / run_module(script, run_name="__main__")         *)
(*                                      -- leave: restore profiler, flush  *)
(*   finally: sys.argv = old_argv                                          *)
(*                                                                         *)
(* The script makes calls (functions of a user module are admitted,        *)
(* functions of the script itself live in __main__) and ends normally, by  *)
(* an exception, or by sys.exit(n).  Whatever the ending: the calls made   *)
(* so far are flushed to the store, the profiler and sys.argv are what     *)
(* they were before, and the ending propagates to the caller.              *)
(***************************************************************************)
EXTENDS Naturals, Sequences, FiniteSets, TLC, Json

CONSTANTS UserFuncs, MainFuncs, MaxCalls
Funcs == UserFuncs \cup MainFuncs
Endings == {"normal", "exception", "exit0", "exit3"}

VARIABLES pc,        \* "start" | "traced" | "script" | "leaving" | "restoring" | "done"
          argv,      \* "outer" | "script"
          prof,      \* "none" | "tracer"
          buf,       \* traces logged, not yet flushed (set: the store deduplicates)
          store,
          made,      \* every call the script made (ground truth)
          ending,    \* how the script ended ("none" while it runs)
          result,    \* what the caller of `monkeytype run` sees
          hist
vars == <<pc, argv, prof, buf, store, made, ending, result, hist>>

Init == /\ pc = "start" /\ argv = "outer" /\ prof = "none" /\ buf = {} /\ store = {} /\ made = <<>>
        /\ ending = "none" /\ result = "none" /\ hist = <<>>

EnterTrace == /\ pc = "start" /\ pc' = "traced" /\ prof' = "tracer"
              /\ UNCHANGED <<argv, buf, store, made, ending, result, hist>>
SetArgv    == /\ pc = "traced" /\ pc' = "script" /\ argv' = "script"
              /\ UNCHANGED <<prof, buf, store, made, ending, result, hist>>
Call(f)    == /\ pc = "script" /\ Len(made) < MaxCalls
              /\ made' = Append(made, f)
              /\ buf' = IF f \in MainFuncs THEN buf ELSE buf \cup {f}      \* log() drops __main__
              /\ hist' = Append(hist, f)
              /\ UNCHANGED <<pc, argv, prof, store, ending, result>>
End(e)     == /\ pc = "script" /\ pc' = "leaving" /\ ending' = e
              /\ UNCHANGED <<argv, prof, buf, store, made, result, hist>>
LeaveTrace == /\ pc = "leaving" /\ pc' = "restoring"
              /\ prof' = "none" /\ store' = store \cup buf /\ buf' = {}    \* restore first, then flush
              /\ UNCHANGED <<argv, made, ending, result, hist>>
Restore    == /\ pc = "restoring" /\ pc' = "done" /\ argv' = "outer" /\ result' = ending
              /\ UNCHANGED <<prof, buf, store, made, ending, hist>>

Next == EnterTrace \/ SetArgv \/ (\E f \in Funcs : Call(f)) \/ (\E e \in Endings : End(e)) \/ LeaveTrace \/ Restore
Spec == Init /\ [][Next]_vars

RangeOf(s) == {s[j] : j \in 1..Len(s)}
\* ---- properties ------------------------------------------------------------------------------
AtEnd == pc = "done" =>
           /\ argv = "outer" /\ prof = "none" /\ buf = {}
           /\ store = RangeOf(made) \cap UserFuncs            \* everything admitted that was called, nothing of __main__
           /\ result = ending
ScriptSeesItsArgv == pc = "script" => argv = "script" /\ prof = "tracer"
NothingOfMain == store \cap MainFuncs = {} /\ buf \cap MainFuncs = {}

\* export: every complete behaviour as {calls, ending}
Emit == pc = "done" => PrintT(<<"H", ToJson([calls |-> hist, ending |-> ending])>>)
=============================================================================
