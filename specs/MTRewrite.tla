------------------------------ MODULE MTRewrite ------------------------------
(***************************************************************************)
(* I-layer for C07: the rewriters shipped in monkeytype/typing.py,         *)
(* transcribed, including GenericTypeRewriter.rewrite's dispatch by type   *)
(* NAME (it descends into Dict, List, Set, Tuple, Generator, Iterator,     *)
(* DefaultDict, Union and TypedDict, and NOT into Type or Callable;        *)
(* Iterator and DefaultDict since fix d4a0820).                            *)
(*                                                                         *)
(* Union member order is not representable here, so a rewriter whose       *)
(* result depends on which member comes first (RewriteLargeUnion) yields a *)
(* SET of possible results: RW(rw, t) is that set.  An exception is the    *)
(* pseudo-type  Mk("err", <exception class>, <<>>, {}).                    *)
(*                                                                         *)
(* Dev_* constants name deviations of the code from the documented         *)
(* behaviour; with all of them FALSE the operators describe the design.    *)
(***************************************************************************)
EXTENDS MTValues

CONSTANTS Dev_RECAnyNeighbour,  \* RemoveEmptyContainers drops C[Any] next to ANY other member (also Iterator[Any])
          Dev_RLUEmptyTupleFirst, \* RewriteLargeUnion: IndexError if the first member is Tuple[()]
          Dev_RLUFirstMro,      \* RewriteLargeUnion: ancestor search follows the FIRST member's MRO only (order dependent)
          Dev_MSCBGeneric       \* RewriteMostSpecificCommonBase: AttributeError (__bases__) on a non-class member

TErr(e) == Mk("err", e, <<>>, {})
IsErr(t) == t.k = "err"

\* all ways to pick one element from each set of a sequence of sets
RECURSIVE Product(_)
Product(ss) == IF Len(ss) = 0 THEN {<<>>}
               ELSE {<<x>> \o rest : x \in ss[1], rest \in Product(Tail(ss))}

\* one element from each set of a sequence of sets, as a set: set of sets
RECURSIVE ProdSets(_)
ProdSets(ss) == IF Len(ss) = 0 THEN {{}}
                ELSE {{x} \cup rest : x \in ss[1], rest \in ProdSets(Tail(ss))}

AnyErr(S) == \E x \in S : IsErr(x)
FirstErr(S) == CHOOSE x \in S : IsErr(x)

RECURSIVE RW(_, _)

\* _rewrite_container for sequence children
RebuildSeq(rw, t) ==
  {IF \E i \in 1..Len(c) : IsErr(c[i]) THEN c[CHOOSE i \in 1..Len(c) : IsErr(c[i])]
   ELSE Mk(t.k, t.n, c, {}) : c \in Product([i \in 1..Len(t.a) |-> RW(rw, t.a[i])])}

\* default rewrite_Union: Union[rewritten members]
RebuildUnion(rw, S) ==
  LET ms == SetToSeq(S) IN
  {IF AnyErr(c) THEN FirstErr(c) ELSE MkUnion(c)
   : c \in ProdSets([i \in 1..Len(ms) |-> RW(rw, ms[i])])}

\* rewrite_anonymous_TypedDict: same keys, rewritten value types
RebuildTD(rw, t) ==
  LET fs == SetToSeq(t.u) IN
  {IF AnyErr({g.a[1] : g \in c}) THEN FirstErr({g.a[1] : g \in c}) ELSE TTD(c)
   : c \in ProdSets([i \in 1..Len(fs) |-> {Mk(fs[i].k, fs[i].n, <<x>>, {}) : x \in RW(rw, fs[i].a[1])}])}

DescendKinds == {"dict", "list", "set", "tuple", "tuplevar", "generator", "iterator", "ddict"}

\* ---- RemoveEmptyContainers ----------------------------------------------------------
HasArgsAllAny(t) == Len(t.a) > 0 /\ \A i \in 1..Len(t.a) : t.a[i].k = "any"
IsEmptyCode(t)  == t.k \in {"list", "set", "dict", "ddict", "tuple", "iterator", "typeof", "generator"} /\ HasArgsAllAny(t)
IsEmptyIdeal(t, u) == /\ IsEmptyCode(t)
                      /\ \E m \in u.u : m.k = t.k /\ ~HasArgsAllAny(m)
RECUnion(u) ==
  LET keep == IF Dev_RECAnyNeighbour THEN {e \in u.u : ~IsEmptyCode(e)}
              ELSE {e \in u.u : ~IsEmptyIdeal(e, u)}
  IN  IF keep = {} THEN {u} ELSE RebuildUnion("REC", keep)

\* ---- RewriteConfigDict --------------------------------------------------------------
RCDUnion(u) ==
  IF /\ \A m \in u.u : m.k = "dict"
     /\ \A m1 \in u.u : \A m2 \in u.u : m1.a[1] = m2.a[1]
  THEN {TDict((CHOOSE m \in u.u : TRUE).a[1], MkUnion({m.a[2] : m \in u.u}))}
  ELSE {u}

\* ---- RewriteLargeUnion(n) -----------------------------------------------------------
AllSameTuple(u) == /\ \A m \in u.u : m.k = "tuple"
                   /\ \E V \in UNION {{m.a[i] : i \in 1..Len(m.a)} : m \in u.u} :
                         \A m \in u.u : \A i \in 1..Len(m.a) : m.a[i] = V
TupleElem(u) == CHOOSE V \in UNION {{m.a[i] : i \in 1..Len(m.a)} : m \in u.u} : TRUE
\* first ancestor (not object) along the MRO of class c that every member is a subclass of
CommonAlong(c, u) ==
  LET mro == MroOf(c)
      ok(i) == mro[i] # "object" /\ \A m \in u.u : IsA(m.n, mro[i])
  IN  IF \E i \in 1..Len(mro) : ok(i)
      THEN TCls(mro[CHOOSE i \in 1..Len(mro) : ok(i) /\ \A j \in 1..(i - 1) : ~ok(j)])
      ELSE TAny
RLUUnion(n, u) ==
  IF Cardinality(u.u) <= n THEN {u}
  ELSE UNION {
    \* `first` = the member that happens to come first in the real Union object
    IF Dev_RLUEmptyTupleFirst /\ first.k = "tuple" /\ Len(first.a) = 0 THEN {TErr("IndexError")}
    ELSE IF (\A m \in u.u : m.k = "tuple") /\ AllSameTuple(u) THEN {TTupleVar(TupleElem(u))}
    ELSE IF \A m \in u.u : m.k = "cls"
         THEN IF Dev_RLUFirstMro THEN {CommonAlong(first.n, u)}
              ELSE LET cands == {CommonAlong(m.n, u) : m \in u.u}
                   IN  IF Cardinality(cands) = 1 THEN cands ELSE {TAny}
         ELSE {TAny}
    : first \in u.u }

\* ---- RewriteMostSpecificCommonBase --------------------------------------------------
\* chain from the class up to (excluding) object, stopping at (and including) a class with several bases
RECURSIVE BaseChain(_)
BaseChain(c) == IF c = "object" THEN <<>>
                ELSE LET bs == IF c \in DOMAIN Bases THEN Bases[c] ELSE <<"object">>
                     IN  IF Len(bs) # 1 THEN <<c>> ELSE BaseChain(bs[1]) \o <<c>>
CommonPrefixLen(chains) ==
  LET minlen == Min({Len(ch) : ch \in chains})
      same(i) == \A c1 \in chains : \A c2 \in chains : c1[i] = c2[i]
  IN  IF minlen = 0 THEN 0
      ELSE Max({0} \cup {i \in 1..minlen : \A j \in 1..i : same(j)})
MSCBUnion(u) ==
  IF \E m \in u.u : m.k \notin {"cls", "td", "any"}
  THEN (IF Dev_MSCBGeneric THEN {TErr("AttributeError")} ELSE {u})
  ELSE IF \A m \in u.u : m.k = "td" THEN {TCls("dict")}   \* TypedDict classes: chain <<dict, TD>>
  ELSE IF \E m \in u.u : m.k # "cls" THEN {u}
  ELSE LET chains == {BaseChain(m.n) : m \in u.u}
           n == CommonPrefixLen(chains)
       IN  IF n = 0 THEN {u} ELSE {TCls((CHOOSE ch \in chains : TRUE)[n])}

\* ---- dispatch -----------------------------------------------------------------------
RW(rw, t) ==
  IF rw = "NOOP" THEN {t}
  ELSE IF t.k = "union" THEN
       CASE rw = "REC"  -> RECUnion(t)
         [] rw = "RCD"  -> RCDUnion(t)
         [] rw = "RLU2" -> RLUUnion(2, t)
         [] rw = "RLU5" -> RLUUnion(5, t)
         [] rw = "MSCB" -> MSCBUnion(t)
         [] OTHER       -> RebuildUnion(rw, t.u)
  ELSE IF t.k = "generator" /\ rw = "RG" THEN
       (IF t.a[2] = TNone /\ t.a[3] = TNone THEN {TIterator(t.a[1])} ELSE {t})
  ELSE IF t.k \in DescendKinds THEN (IF t.k = "tuple" /\ Len(t.a) = 0 THEN {t} ELSE RebuildSeq(rw, t))
  ELSE IF t.k = "td" THEN RebuildTD(rw, t)
  ELSE {t}

RewriterNames == {"REC", "RCD", "RLU2", "RLU5", "MSCB", "RG", "NOOP"}
DefaultChain == <<"REC", "RCD", "RLU5", "RG">>

\* ChainedRewriter: one step per link
RECURSIVE RWChain(_, _)
RWChain(chain, t) ==
  IF Len(chain) = 0 \/ IsErr(t) THEN {t}
  ELSE UNION {RWChain(Tail(chain), x) : x \in RW(chain[1], t)}
=============================================================================
