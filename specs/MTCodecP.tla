------------------------------ MODULE MTCodecP ------------------------------
(***************************************************************************)
(* P-layer for C08: serialisation fidelity, stated on observations.        *)
(*  RoundTrip      decode(encode(T)) is structurally T                     *)
(*  EncodeTotal    encoding/decoding an inferable type raises nothing      *)
(*  StructureOnly  differently built, structurally equal types have the    *)
(*                 same encoding (JSON text equality)                      *)
(*  TraceRoundTrip function, argument types, return and yield types come   *)
(*                 back; absent stays distinct from NoneType               *)
(***************************************************************************)
EXTENDS MTValues

RoundTripOK(ty, back) == Norm(back) = Norm(ty)

TypeViol(ty, back, err, encs) ==
       (IF err # "NONE" THEN {"EncodeTotal"} ELSE {})
  \cup (IF err = "NONE" /\ ~RoundTripOK(ty, back) THEN {"RoundTrip"} ELSE {})
  \cup (IF \E i \in 1..Len(encs) : encs[i] # encs[1] THEN {"StructureOnly"} ELSE {})

\* a call trace: [func, same (BOOLEAN: decoded function IS the original), args (set of [n, ty]), ret, yld]
TraceViol(orig, back, err, rowsEqual) ==
  IF err # "NONE" THEN {"TraceEncodeTotal"}
  ELSE   (IF ~back.same THEN {"SameFunction"} ELSE {})
    \* the stored row (the text columns) is a function of the trace's structure only
    \cup (IF ~rowsEqual THEN {"TraceStructureOnly"} ELSE {})
    \cup (IF {[n |-> x.n, ty |-> Norm(x.ty)] : x \in orig.args} # {[n |-> x.n, ty |-> Norm(x.ty)] : x \in back.args}
          THEN {"ArgTypes"} ELSE {})
    \cup (IF Norm(orig.ret) # Norm(back.ret) THEN {"ReturnType"} ELSE {})
    \cup (IF Norm(orig.yld) # Norm(back.yld) THEN {"YieldType"} ELSE {})
=============================================================================
