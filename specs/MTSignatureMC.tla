----------------------------- MODULE MTSignatureMC -----------------------------
(* I => P for the signature matrix: every cell annotated? x traced? x strategy x None-default x receiver,
   and every return/yield combination. *)
EXTENDS MTSignature

VARIABLES p, strategy, src, ret, yld, outA, outR
vars == <<p, strategy, src, ret, yld, outA, outR>>

Tys == {TAbsent, TCls("int"), TNone, TList(TCls("int")), MkUnion({TCls("int"), TNone})}
Init == /\ p \in [name : {"a"}, defnone : BOOLEAN, self : BOOLEAN, src : Tys, traced : Tys]
        /\ (p.self => IsAbs(p.src))        \* generated sources do not annotate the receiver (C13 reading)
        /\ strategy \in {"REPLICATE", "OMIT", "IGNORE"}
        /\ src \in Tys /\ ret \in Tys /\ yld \in {TAbsent, TCls("int"), TNone}
        /\ outA = TAbsent /\ outR = TAbsent
Update == /\ outA' = Shown(p, UpdArg(p, strategy)) /\ outR' = UpdRet(src, ret, yld, strategy)
          /\ UNCHANGED <<p, strategy, src, ret, yld>>
Spec == Init /\ [][Update]_vars
\* after the update (outA/outR differ from the initial TAbsent or the cell allows absent)
ArgCell == [][Norm(outA') \in AllowedArg(p, strategy)]_vars
RetCell == [][Norm(outR') \in AllowedRet(src, ret, yld, strategy)]_vars
=============================================================================
