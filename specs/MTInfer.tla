------------------------------ MODULE MTInfer ------------------------------
(***************************************************************************)
(* I-layer of type inference: monkeytype/typing.py get_type,               *)
(* get_dict_type, shrink_types, shrink_typed_dict_types and                *)
(* RewriteAnonymousTypedDictToDict transcribed operator by operator.       *)
(*                                                                         *)
(* shrink_types receives a tuple of types; here it receives the SET of     *)
(* them.  That the result of the real function depends only on that set    *)
(* (order, multiplicity) is the OrderFree clause of the P-layer, decided   *)
(* on the real code by trace validation, not assumed.                      *)
(***************************************************************************)
EXTENDS MTValues

RECURSIVE GetType(_, _), Shrink(_, _), ShrinkTD(_, _), TD2Dict(_)

\* RewriteAnonymousTypedDictToDict().rewrite(t): GenericTypeRewriter.rewrite dispatches on
\* the NAME of the type: Dict, List, Set, Tuple, Generator, Iterator, DefaultDict, Union, TypedDict are
\* descended into (Iterator and DefaultDict since fix d4a0820); Type, Callable and classes are returned as they are.
TD2Dict(t) ==
  CASE t.k = "td" ->
         IF t.u = {} THEN TDict(TAny, TAny)
         ELSE TDict(TCls("str"), MkUnion({TD2Dict(f.a[1]) : f \in t.u}))
    [] t.k \in {"list", "set", "dict", "generator", "iterator", "ddict"} ->
         Mk(t.k, "", [i \in 1..Len(t.a) |-> TD2Dict(t.a[i])], {})
    [] t.k = "tuple" -> Mk("tuple", "", [i \in 1..Len(t.a) |-> TD2Dict(t.a[i])], {})
    [] t.k = "union" -> MkUnion({TD2Dict(m) : m \in t.u})
    [] OTHER -> t

ReqKeys(td) == {f.n : f \in {g \in td.u : g.k = "req"}}
OptKeys(td) == {f.n : f \in {g \in td.u : g.k = "opt"}}
FieldTypes(S, key, kinds) == {f.a[1] : f \in {g \in UNION {td.u : td \in S} : g.n = key /\ g.k \in kinds}}

\* shrink_typed_dict_types
ShrinkTD(S, k) ==
  LET allReq  == UNION {ReqKeys(td) : td \in S}
      allOpt  == UNION {OptKeys(td) : td \in S}
      req     == {key \in allReq : \A td \in S : key \in ReqKeys(td)}
      opt     == (allReq \ req) \cup allOpt
      reqT(key) == FieldTypes(S, key, {"req"})
      optT(key) == FieldTypes(S, key, {"req", "opt"})
  IN IF Cardinality(req) + Cardinality(opt) > k
     THEN TDict(TCls("str"),
                Shrink(UNION ({reqT(key) : key \in req} \cup {optT(key) : key \in opt}), k))
     ELSE TTD({TReq(key, Shrink(reqT(key), k)) : key \in req}
              \cup {TOpt(key, Shrink(optT(key), k)) : key \in opt})

\* shrink_types: five paths
Shrink(S, k) ==
  IF S = {} THEN TAny
  ELSE IF \A t \in S : t.k = "td" THEN ShrinkTD(S, k)
  ELSE IF Cardinality(S) = 1 THEN CHOOSE t \in S : TRUE
  ELSE IF \A t \in S : t.k = "list" THEN TList(Shrink({t.a[1] : t \in S}, k))
  ELSE MkUnion({TD2Dict(t) : t \in S})

\* get_dict_type
GetDictType(v, k) ==
  IF Len(v.a) = 0 THEN TDict(TAny, TAny)
  ELSE IF AllStrKeys(v) /\ AllFieldNames(v) /\ Len(v.a) <= k     \* keys that are identifiers (fix: _is_field_name)
       THEN TTD({TReq(v.a[i].a[1].n, GetType(v.a[i].a[2], k)) : i \in 1..Len(v.a)})
       ELSE TDict(Shrink({GetType(x, k) : x \in DKeys(v)}, k),
                  Shrink({GetType(x, k) : x \in DVals(v)}, k))

\* get_type
GetType(v, k) ==
  CASE v.k = "classobj" -> TTypeOf(TCls(v.n))
    [] v.k = "func"     -> TCallable
    [] v.k = "genobj"   -> TIterator(TAny)
    [] v.k = "list"     -> TList(Shrink({GetType(e, k) : e \in Elems(v)}, k))
    [] v.k = "set"      -> TSet(Shrink({GetType(e, k) : e \in Elems(v)}, k))
    [] v.k = "dict"     -> GetDictType(v, k)
    [] v.k = "ddict"    -> TDDict(Shrink({GetType(x, k) : x \in DKeys(v)}, k),
                                  Shrink({GetType(x, k) : x \in DVals(v)}, k))
    [] v.k = "tuple"    -> TTuple([i \in 1..Len(v.a) |-> GetType(v.a[i], k)])
    [] v.k = "str"      -> TCls(ClassOf(v))
    [] OTHER            -> TCls(v.n)

\* the whole pipeline for one collection of values
Infer(vals, k) == Shrink({GetType(v, k) : v \in vals}, k)
=============================================================================
