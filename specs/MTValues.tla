----------------------------- MODULE MTValues -----------------------------
(***************************************************************************)
(* Shared vocabulary of all MonkeyType specifications (DESIGN.md, 3).      *)
(*                                                                         *)
(* Every runtime value and every type is a record [k, n, a, u]:            *)
(*   k  kind (string)        n  name (string)                              *)
(*   a  SEQUENCE of sub-terms (ordered children)                           *)
(*   u  SET of sub-terms (union members, TypedDict fields)                 *)
(* Keeping ordered and unordered children apart makes union member order   *)
(* unrepresentable, so structural equality of types is TLA+ "=".           *)
(*                                                                         *)
(* This module holds the ORACLES of the P-layers: Member (runtime          *)
(* conformance), Wit (tightness), SubT (subtyping), AllTDs.  It says       *)
(* nothing about how MonkeyType computes anything.                         *)
(*                                                                         *)
(* The class table Mro (class name -> sequence of MRO names) comes from    *)
(* module MTEnv, which the harness generates from the live classes.        *)
(***************************************************************************)
EXTENDS Naturals, Sequences, FiniteSets, TLC, SequencesExt, FiniteSetsExt, MTEnv

Mk(k, n, a, u) == [k |-> k, n |-> n, a |-> a, u |-> u]

\* ---- JSON (u as array) -> TLA (u as set), recursively -------------------------------
RECURSIVE J2T(_)
J2T(t) == [k |-> t.k, n |-> t.n,
           a |-> [i \in 1..Len(t.a) |-> J2T(t.a[i])],
           u |-> {J2T(t.u[i]) : i \in 1..Len(t.u)}]

J2TSeq(s) == [i \in 1..Len(s) |-> J2T(s[i])]

\* ---- value constructors -------------------------------------------------------------
VAtom(c)     == Mk("atom", c, <<>>, {})
VStr(s)      == Mk("str", s, <<>>, {})
VStrSub(s, c) == Mk("str", s, <<Mk("atom", c, <<>>, {})>>, {})    \* instance of a subclass c of str
VClassObj(c) == Mk("classobj", c, <<>>, {})
VFunc(f)     == Mk("func", f, <<>>, {})
VGen         == Mk("genobj", "", <<>>, {})
VList(s)     == Mk("list", "", s, {})
VSet(s)      == Mk("set", "", s, {})
VTuple(s)    == Mk("tuple", "", s, {})
VPair(x, y)  == Mk("pair", "", <<x, y>>, {})
VDict(ps)    == Mk("dict", "", ps, {})
VDDict(ps)   == Mk("ddict", "", ps, {})

\* ---- type constructors --------------------------------------------------------------
TAny           == Mk("any", "", <<>>, {})
TAbsent        == Mk("absent", "", <<>>, {})
TCls(c)        == Mk("cls", c, <<>>, {})
TNone          == TCls("NoneType")
TTypeOf(t)     == Mk("typeof", "", <<t>>, {})
TCallable      == Mk("callable", "", <<>>, {})
TIterator(t)   == Mk("iterator", "", <<t>>, {})
TGenerator(y, s, r) == Mk("generator", "", <<y, s, r>>, {})
TList(t)       == Mk("list", "", <<t>>, {})
TSet(t)        == Mk("set", "", <<t>>, {})
TDict(x, y)    == Mk("dict", "", <<x, y>>, {})
TDDict(x, y)   == Mk("ddict", "", <<x, y>>, {})
TTuple(s)      == Mk("tuple", "", s, {})
TTupleVar(t)   == Mk("tuplevar", "", <<t>>, {})
TReq(key, t)   == Mk("req", key, <<t>>, {})
TOpt(key, t)   == Mk("opt", key, <<t>>, {})
TTD(fields)    == Mk("td", "", <<>>, fields)

\* Union construction as typing.Union does it: flatten, dedupe, collapse a singleton.
MkUnion(S) == LET F == UNION {IF t.k = "union" THEN t.u ELSE {t} : t \in S}
              IN  IF Cardinality(F) = 1 THEN CHOOSE t \in F : TRUE
                  ELSE Mk("union", "", <<>>, F)

\* Normal form: nested unions flattened everywhere.
RECURSIVE Norm(_)
Norm(t) == IF t.k = "union"
           THEN MkUnion({Norm(m) : m \in t.u})
           ELSE [k |-> t.k, n |-> t.n,
                 a |-> [i \in 1..Len(t.a) |-> Norm(t.a[i])],
                 u |-> {Norm(m) : m \in t.u}]

\* ---- class table --------------------------------------------------------------------
MroOf(c) == IF c \in DOMAIN Mro THEN Mro[c] ELSE <<c, "object">>
IsA(c, base) == \E i \in 1..Len(MroOf(c)) : MroOf(c)[i] = base

ClassOf(v) == CASE v.k = "atom"     -> v.n
                [] v.k = "str"      -> IF Len(v.a) > 0 THEN v.a[1].n ELSE "str"    \* a = <<atom(class)>> for a str subclass
                [] v.k = "classobj" -> "type"
                [] v.k = "func"     -> v.n
                [] v.k = "genobj"   -> "generator"
                [] v.k = "list"     -> "list"
                [] v.k = "set"      -> "set"
                [] v.k = "tuple"    -> "tuple"
                [] v.k = "dict"     -> "dict"
                [] v.k = "ddict"    -> "collections.defaultdict"
                [] OTHER            -> "object"

\* ---- helpers on dict values ---------------------------------------------------------
Elems(v)     == {v.a[i] : i \in 1..Len(v.a)}
DKeys(v)     == {v.a[i].a[1] : i \in 1..Len(v.a)}
DVals(v)     == {v.a[i].a[2] : i \in 1..Len(v.a)}
AllStrKeys(v) == \A x \in DKeys(v) : x.k = "str"
\* Strings are tokens here: the keys that are NOT identifiers / are keywords are a fixed, named set (the universes
\* and the harness pools use no other such key).
NonFieldNames == {"content-type", "class", "1abc", "a b", "", "x-y", "def", "None", "True"}
AllFieldNames(v) == \A x \in DKeys(v) : x.k = "str" => x.n \notin NonFieldNames
HasKey(v, key) == \E i \in 1..Len(v.a) : v.a[i].a[1].k = "str" /\ v.a[i].a[1].n = key
ValsAt(v, key) == {v.a[i].a[2] : i \in {j \in 1..Len(v.a) : v.a[j].a[1].k = "str" /\ v.a[j].a[1].n = key}}

\* An instance of a user subclass of a builtin container is opaque: its contents are never
\* inspected (neither by MonkeyType nor by the projection), so it may conform to any
\* parametrisation of that container.  This is the lenient reading: never a false alarm.
Opaque(v, base) == v.k = "atom" /\ IsA(v.n, base)

(***************************************************************************)
(* Member(v, T): does runtime value v conform to type T?                   *)
(***************************************************************************)
RECURSIVE Member(_, _)
Member(v, T) ==
  CASE T.k = "any"      -> TRUE
    [] T.k = "cls"      -> IsA(ClassOf(v), T.n)
    [] T.k = "typeof"   -> /\ v.k = "classobj"
                           /\ LET X == T.a[1] IN
                              CASE X.k = "cls"   -> IsA(v.n, X.n)
                                [] X.k = "any"   -> TRUE
                                [] X.k = "union" -> \E m \in X.u : m.k = "cls" /\ IsA(v.n, m.n)
                                [] OTHER         -> FALSE
    [] T.k = "callable" -> v.k \in {"func", "classobj"}
    [] T.k \in {"iterator", "generator"} -> v.k = "genobj"
    [] T.k = "iterable" -> v.k \in {"genobj", "list", "set", "tuple", "dict", "ddict", "str"}
    [] T.k = "list"     -> \/ v.k = "list" /\ \A i \in 1..Len(v.a) : Member(v.a[i], T.a[1])
                           \/ Opaque(v, "list")
    [] T.k = "set"      -> \/ v.k = "set" /\ \A i \in 1..Len(v.a) : Member(v.a[i], T.a[1])
                           \/ Opaque(v, "set")
    [] T.k = "dict"     -> \/ /\ v.k \in {"dict", "ddict"}
                              /\ \A i \in 1..Len(v.a) : /\ Member(v.a[i].a[1], T.a[1])
                                                        /\ Member(v.a[i].a[2], T.a[2])
                           \/ Opaque(v, "dict")
    [] T.k = "ddict"    -> \/ /\ v.k = "ddict"
                              /\ \A i \in 1..Len(v.a) : /\ Member(v.a[i].a[1], T.a[1])
                                                        /\ Member(v.a[i].a[2], T.a[2])
                           \/ Opaque(v, "collections.defaultdict")
    [] T.k = "tuple"    -> \/ /\ v.k = "tuple" /\ Len(v.a) = Len(T.a)
                              /\ \A i \in 1..Len(v.a) : Member(v.a[i], T.a[i])
                           \/ Opaque(v, "tuple")
    [] T.k = "tuplevar" -> \/ v.k = "tuple" /\ \A i \in 1..Len(v.a) : Member(v.a[i], T.a[1])
                           \/ Opaque(v, "tuple")
    [] T.k = "union"    -> \E m \in T.u : Member(v, m)
    [] T.k \in {"td", "named"} ->
                           /\ v.k = "dict"
                           /\ \A i \in 1..Len(v.a) :
                                 /\ v.a[i].a[1].k = "str"
                                 /\ \E f \in T.u : f.n = v.a[i].a[1].n /\ Member(v.a[i].a[2], f.a[1])
                           /\ \A f \in T.u : f.k = "req" => HasKey(v, f.n)
    [] OTHER            -> FALSE

(***************************************************************************)
(* Wit(T, vals, emp): tightness.  T, standing at some nesting position, is *)
(* witnessed by the set vals of runtime values observed at that position;  *)
(* emp says that some container observed directly above was empty (the     *)
(* only licence for Any).                                                  *)
(***************************************************************************)
RECURSIVE Wit(_, _, _)
Wit(T, vals, emp) ==
  CASE T.k = "any"      -> emp
    [] T.k = "union"    -> \A m \in T.u : Wit(m, {v \in vals : Member(v, m)}, emp)
    [] T.k = "cls"      -> \E v \in vals : ClassOf(v) = T.n /\ v.k \in {"atom", "str"}
    [] T.k = "typeof"   -> /\ T.a[1].k = "cls"
                           /\ \E v \in vals : v.k = "classobj" /\ v.n = T.a[1].n
    [] T.k = "callable" -> \E v \in vals : v.k = "func"
    [] T.k = "iterator" -> T.a[1].k = "any" /\ \E v \in vals : v.k = "genobj"
    [] T.k \in {"list", "set"} ->
          LET L == {v \in vals : v.k = T.k} IN
          /\ L # {}
          /\ Wit(T.a[1], UNION {Elems(v) : v \in L}, \E v \in L : Len(v.a) = 0)
    [] T.k \in {"dict", "ddict"} ->
          LET L == {v \in vals : v.k = T.k} IN
          /\ L # {}
          /\ Wit(T.a[1], UNION {DKeys(v) : v \in L}, \E v \in L : Len(v.a) = 0)
          /\ Wit(T.a[2], UNION {DVals(v) : v \in L}, \E v \in L : Len(v.a) = 0)
    [] T.k = "tuple"    ->
          LET L == {v \in vals : v.k = "tuple" /\ Len(v.a) = Len(T.a)} IN
          /\ L # {}
          /\ \A i \in 1..Len(T.a) : Wit(T.a[i], {v.a[i] : v \in L}, FALSE)
    [] T.k = "td"       ->
          \* every observed dict at this position counts, the empty one too: it lacks every key
          LET L == {v \in vals : v.k = "dict" /\ AllStrKeys(v)} IN
          /\ \E v \in L : Len(v.a) > 0
          /\ T.u # {}
          /\ \A f \in T.u :
                LET has == {v \in L : HasKey(v, f.n)} IN
                /\ has # {}
                /\ (f.k = "req" => has = L)
                /\ (f.k = "opt" => has # L)
                /\ Wit(f.a[1], UNION {ValsAt(v, f.n) : v \in has}, FALSE)
    [] OTHER            -> FALSE

\* ---- all anonymous TypedDict nodes at any depth -------------------------------------
RECURSIVE AllTDs(_)
AllTDs(T) == (IF T.k = "td" THEN {T} ELSE {})
             \cup UNION {AllTDs(T.a[i]) : i \in 1..Len(T.a)}
             \cup UNION {AllTDs(m) : m \in T.u}

TDKeys(td) == {f.n : f \in td.u}

\* the value holds, somewhere, a non-empty dict all of whose keys are strings (the only thing a TypedDict may come from)
RECURSIVE HoldsRecord(_)
HoldsRecord(v) == \/ (v.k = "dict" /\ Len(v.a) > 0 /\ \A j \in 1..Len(v.a) : v.a[j].a[1].k = "str")
                  \/ \E j \in 1..Len(v.a) : HoldsRecord(v.a[j])

\* C06 bound on one type
TDBoundOK(T, k) == \A d \in AllTDs(T) : Cardinality(TDKeys(d)) >= 1 /\ Cardinality(TDKeys(d)) <= k

(***************************************************************************)
(* SubT(S, T): syntactic covariant subtyping  S <: T.                      *)
(***************************************************************************)
RECURSIVE SubT(_, _)
SubT(S, T) ==
  IF S = T \/ T.k = "any" THEN TRUE
  ELSE IF S.k = "union" THEN \A m \in S.u : SubT(m, T)
  ELSE IF T.k = "union" THEN \E m \in T.u : SubT(S, m)
  ELSE IF S.k = "any" THEN FALSE
  ELSE
  CASE T.k = "cls" ->
         CASE S.k = "cls"    -> IsA(S.n, T.n)
           [] S.k \in {"list", "set", "dict", "tuple", "tuplevar"} ->
                                IsA(IF S.k = "tuplevar" THEN "tuple" ELSE S.k, T.n)
           [] S.k = "ddict"  -> IsA("collections.defaultdict", T.n)
           [] S.k = "td"     -> IsA("dict", T.n)
           [] S.k = "typeof" -> IsA("type", T.n)
           [] OTHER          -> T.n = "object"
    [] T.k \in {"list", "set", "typeof", "iterator", "iterable"} /\ S.k = T.k -> SubT(S.a[1], T.a[1])
    [] T.k = "iterable" /\ S.k = "iterator" -> SubT(S.a[1], T.a[1])
    [] T.k \in {"iterator", "iterable"} /\ S.k = "generator" -> SubT(S.a[1], T.a[1])
    [] T.k = "generator" /\ S.k = "generator" -> \A i \in 1..3 : SubT(S.a[i], T.a[i])
    [] T.k = "dict" /\ S.k \in {"dict", "ddict"} -> SubT(S.a[1], T.a[1]) /\ SubT(S.a[2], T.a[2])
    [] T.k = "dict" /\ S.k = "td" ->
          /\ SubT(TCls("str"), T.a[1])
          /\ \A f \in S.u : SubT(f.a[1], T.a[2])
    [] T.k = "ddict" /\ S.k = "ddict" -> SubT(S.a[1], T.a[1]) /\ SubT(S.a[2], T.a[2])
    [] T.k = "tuple" /\ S.k = "tuple" ->
          Len(S.a) = Len(T.a) /\ \A i \in 1..Len(S.a) : SubT(S.a[i], T.a[i])
    [] T.k = "tuplevar" /\ S.k = "tuple" -> \A i \in 1..Len(S.a) : SubT(S.a[i], T.a[1])
    [] T.k = "tuplevar" /\ S.k = "tuplevar" -> SubT(S.a[1], T.a[1])
    [] T.k = "callable" /\ S.k = "typeof" -> TRUE
    [] T.k = "td" /\ S.k = "td" ->
          /\ \A f \in S.u : \E g \in T.u : g.n = f.n /\ SubT(f.a[1], g.a[1])
                                             /\ (g.k = "req" => f.k = "req")
          /\ \A g \in T.u : g.k = "req" => \E f \in S.u : f.n = g.n
    [] OTHER -> FALSE

\* extensional twin over a finite value universe (guards the syntactic oracle)
SubX(S, T, Universe) == \A v \in Universe : Member(v, S) => Member(v, T)
=============================================================================
