--------------------------- MODULE MTRewriteTrace ---------------------------
(***************************************************************************)
(* Batch validation of recorded rewriter runs against MTRewriteP.          *)
(* One ndjson line per (type, rewriter or chain):                          *)
(*  {tid, chain:[rw...], pre, post, err, seen:[Value...],                  *)
(*   steps:[{rw, pre, post, err}...]}                                      *)
(* post/err = what the real (Chained)Rewriter returned / raised; steps =   *)
(* what each link returned when the harness stepped through the chain one  *)
(* real rewriter at a time (like ChainedRewriter.rewrite does).            *)
(* One TLC state per step, then one for the whole chain.  Total actions.   *)
(***************************************************************************)
EXTENDS MTRewrite, MTRewriteP, Json, IOUtils

Recs == ndJsonDeserialize(IOEnv.TRACE_FILE)
N == Len(Recs)

VARIABLES i, s, viol, drift, trig
vars == <<i, s, viol, drift, trig>>

Init == i = 1 /\ s = 0 /\ viol = {} /\ drift = FALSE /\ trig = FALSE

Seen(rec) == {J2T(rec.seen[j]) : j \in 1..Len(rec.seen)}
TyOrErr(t, e) == IF e # "NONE" THEN TErr(e) ELSE J2T(t)

StepAct ==
  /\ i <= N /\ s < Len(Recs[i].steps)
  /\ LET rec == Recs[i]
         st  == rec.steps[s + 1]
         pre == J2T(st.pre)
         post == IF st.err # "NONE" THEN TAbsent ELSE J2T(st.post)
     IN /\ viol' = viol \cup RewriteViol(st.rw, st.n, st.rawu, pre, post, st.err, Seen(rec))
        /\ trig' = (trig \/ TriggerN(st.rw, st.n, st.rawu, pre))
        /\ drift' = (drift \/ TyOrErr(st.post, st.err) \notin RW(st.rw, pre))
  /\ s' = s + 1 /\ UNCHANGED i

ChainAct ==
  /\ i <= N /\ s = Len(Recs[i].steps)
  /\ LET rec  == Recs[i]
         pre  == J2T(rec.pre)
         err  == rec.err # "NONE"
         post == IF err THEN TAbsent ELSE J2T(rec.post)
         last == rec.steps[Len(rec.steps)]
         v2   == viol
                 \cup (IF err THEN {"NoCrash"} ELSE {})
                 \cup (IF ~err /\ ~NeverNarrows(pre, post, Seen(rec)) THEN {"NeverNarrows"} ELSE {})
                 \cup (IF ~err /\ post # pre /\ ~trig THEN {"OnlyOnTrigger"} ELSE {})
         d2   == drift \/ (TyOrErr(rec.post, rec.err) # TyOrErr(last.post, last.err))
     IN (v2 # {} \/ d2) =>
          PrintT(<<"V", ToJson([tid |-> rec.tid, viol |-> v2, drift |-> d2])>>)
  /\ i' = i + 1 /\ s' = 0 /\ viol' = {} /\ drift' = FALSE /\ trig' = FALSE

Done == /\ i = N + 1
        /\ PrintT(<<"DONE", ToJson([n |-> N])>>)
        /\ i' = N + 2 /\ UNCHANGED <<s, viol, drift, trig>>

Next == StepAct \/ ChainAct \/ Done
Spec == Init /\ [][Next]_vars
=============================================================================
