----------------------------- MODULE MTApplyTrace -----------------------------
(***************************************************************************)
(* Batch validation of real applications of real stubs (C15, C16).         *)
(* {tid, overwrite, confine, failed, parses, erasure, idempotent,          *)
(*  importable, behaviour, future_first, has_generated_classes,            *)
(*  src_imports, res_imports, stub_imports, positions}                     *)
(***************************************************************************)
EXTENDS MTApply, Json, IOUtils

Recs == ndJsonDeserialize(IOEnv.TRACE_FILE)
N == Len(Recs)
VARIABLES i
vars == <<i>>
Init == i = 1

ToS(s) == {s[j] : j \in 1..Len(s)}

Viol(r) ==
  IF r.failed THEN {"ApplyFails"}
  ELSE IF ~r.parses THEN {"Parses"}
  ELSE LET srcI == ToS(r.src_imports) resI == ToS(r.res_imports) IN
       (IF ~r.erasure THEN {"ErasureEqual"} ELSE {})
  \cup (IF ~r.idempotent THEN {"Idempotent"} ELSE {})
  \cup UNION {PositionViol(r.positions[j], r.overwrite) : j \in 1..Len(r.positions)}
  \cup (IF ~r.importable THEN {"Importable"} ELSE {})
  \cup (IF r.importable /\ ~r.behaviour THEN {"SameBehaviour"} ELSE {})
  \cup (IF ~ExistingUnmoved(srcI, resI) THEN {"ExistingUnmoved"} ELSE {})
  \cup (IF r.confine /\ ~r.future_first THEN {"FutureFirst"} ELSE {})
  \cup (IF r.confine /\ ~ConfinedOnly(srcI, resI) THEN {"ConfinedOnlyNewAnnotationOnly"} ELSE {})
  \cup (IF r.confine /\ ~ConfinedAll(srcI, resI) THEN {"ConfinedAllNew"} ELSE {})
  \* every import of the stub is SOMEWHERE in the result (as written, or as `import m` next to `m.X` annotations): an import
  \* that was taken out of the run-time part and never put under TYPE_CHECKING is "confined" to nowhere
  \cup (IF r.confine /\ \E s \in ToS(r.stub_imports) : s.module \notin {"typing", "__future__"}
                        /\ ~(\E j \in resI : j.module = s.module /\ (j.name = s.name \/ j.kind = "import"))
        THEN {"ConfinedAllNew"} ELSE {})
  \cup (IF ~RuntimeNeeds(resI) THEN {"RuntimeNeedsAtRuntime"} ELSE {})
  \cup (IF ~r.confine /\ \E j \in resI : j.block = "tc" /\ ~(\E s \in srcI : Key(s) = Key(j)) THEN {"ConfinedWithoutRequest"} ELSE {})

\* drift: the source imports that really disappeared vs the I-layer's prediction
Drift(r) ==
  ~r.failed /\ r.parses /\ r.confine /\
  LET srcI == ToS(r.src_imports) resI == ToS(r.res_imports)
      gone == {Key(x) : x \in {y \in srcI : ~(\E j \in resI : Key(j) = Key(y) /\ j.block = y.block)}}
      pred == {Key(x) : x \in DeletedFromSource(ToS(r.stub_imports), srcI)}
  IN gone # pred

Step == /\ i <= N
        /\ LET v == Viol(Recs[i]) d == Drift(Recs[i]) IN
           (v # {} \/ d) => PrintT(<<"V", ToJson([tid |-> Recs[i].tid, viol |-> v, drift |-> d])>>)
        /\ i' = i + 1
Done == /\ i = N + 1 /\ PrintT(<<"DONE", ToJson([n |-> N])>>) /\ i' = N + 2
Next == Step \/ Done
Spec == Init /\ [][Next]_vars
=============================================================================
