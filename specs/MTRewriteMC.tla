---------------------------- MODULE MTRewriteMC ----------------------------
(***************************************************************************)
(* Model checking I => P for the rewriters: from every type of a finite    *)
(* universe, every chain of <= MaxChain rewriter steps; the P clauses of   *)
(* MTRewriteP are invariants.  With every Dev_* FALSE this checks the      *)
(* DESIGN; with the deviations of the code switched on TLC enumerates the  *)
(* states in which the model predicts a violation (replay candidates).     *)
(***************************************************************************)
EXTENDS MTRewrite, MTRewriteP, MTTypeUniverse

CONSTANTS MaxChain, UName

VARIABLES pre, ty, chain, trig
vars == <<pre, ty, chain, trig>>

L1s == TAtomsSmall \cup Cont(TAtomsSmall)
U == CASE UName = "t1small" -> L1s \cup Pairs(L1s)
       [] UName = "big"     -> BigUnions(ClassPool, 3, 7) \cup BigUnions(TuplePool, 3, 7) \cup BigUnions(SubclassPool, 6, 6)
                               \cup BigUnions(MixedPool, 3, 3) \cup KUnions(MixedPool, 6)
       [] UName = "both"    -> L1s \cup Pairs(L1s) \cup BigUnions(ClassPool, 3, 7) \cup BigUnions(TuplePool, 3, 7)
                               \cup BigUnions(SubclassPool, 6, 6) \cup BigUnions(MixedPool, 3, 3) \cup KUnions(MixedPool, 6)
                               \cup Wrap(KUnions(MixedPool, 3)) \cup TDPool \cup Pairs(TDPool)

Init == pre \in U /\ ty = pre /\ chain = <<>> /\ trig = FALSE

Rewrite(rw) == /\ Len(chain) < MaxChain /\ ~IsErr(ty)
               /\ ty' \in RW(rw, ty)
               /\ chain' = Append(chain, rw)
               /\ trig' = (trig \/ Trigger(rw, ty))
               /\ UNCHANGED pre

Next == \E rw \in RewriterNames : Rewrite(rw)
Spec == Init /\ [][Next]_vars

Inv_NoCrash       == ~IsErr(ty)
Inv_NeverNarrows  == ~IsErr(ty) => SubG(pre, ty)
Inv_OnlyOnTrigger == (~IsErr(ty) /\ ty # pre) => trig
=============================================================================
