--------------------------- MODULE MC_MTStoreTxnApa ---------------------------
(***************************************************************************)
(* Apalache wrapper for the transactional core of the store: TIndInv is an *)
(* inductive invariant, so atomicity, lock discipline and the single       *)
(* writer hold after ANY number of begin / insert / commit / abort / crash *)
(* / reopen steps (TLC checks MTStore to a depth bound).                   *)
(*   apalache-mc check --init=TInit   --inv=TIndInv --length=0 MC_MTStoreTxnApa.tla   (base) *)
(*   apalache-mc check --init=IndInit --inv=TIndInv --length=1 --next=TNext ...        (step) *)
(***************************************************************************)
EXTENDS Integers, FiniteSets, Apalache

Conn == {"c1", "c2", "c3"}
BatchIds == {"b1", "b2", "b3", "b4"}
\* @type: Str -> Int;
BatchSize == [b \in BatchIds |-> IF b = "b1" THEN 0 ELSE IF b = "b2" THEN 1 ELSE 3]

VARIABLES
  \* @type: Set(Str);
  disk,
  \* @type: Str -> { b: Str, cur: Int };
  txn,
  \* @type: Str -> Bool;
  alive,
  \* @type: Str;
  lock,
  \* @type: Str -> Str;
  journal

INSTANCE MTStoreTxn

IndInit == /\ disk = Gen(4) /\ txn = Gen(3) /\ alive = Gen(3) /\ lock = Gen(1) /\ journal = Gen(3)
           /\ TIndInv

\* sanity (expected to be VIOLATED from IndInit: the inductive invariant admits states with a writer in flight)
NoWriterEver == \A c \in Conn : txn[c] = NoTxn
=============================================================================
