---------------------------- MODULE MTFilterExport ----------------------------
(***************************************************************************)
(* The enumerated space of C17(a): all source locations of <= 2 directory  *)
(* components plus a file stem over a component alphabet that collides     *)
(* with the allow-list names, placed outside every library root, under     *)
(* each root, behind a symlink into a root, behind a symlink out of a      *)
(* root, or below a base directory that is itself named like an allowed    *)
(* module; synthetic file names; allow-lists of 0..3 names.                *)
(***************************************************************************)
EXTENDS Naturals, Sequences, FiniteSets, TLC, SequencesExt, Json, IOUtils

Alpha == {"foo", "bar", "utils"}
Dirs == UNION {[1..n -> Alpha] : n \in 0..2}
Stems == Alpha \cup {"__init__"}
\* root_prefix_sibling: a directory NEXT to a library root whose name merely starts with the root's name (site-packages2)
Places == {"outside", "root1", "root2", "root3", "link_into_root", "link_out_of_root", "outside_named_base", "root_prefix_sibling"}
Allows == {<<>>, <<"foo">>, <<"zzz">>, <<"bar", "utils">>, <<"zzz", "utils", "foo">>}
Cases == {[kind |-> "real", dirs |-> d, stem |-> s, place |-> p, allow |-> a, allowset |-> a # <<>>]
            : d \in Dirs, s \in Stems, p \in Places, a \in Allows}
         \cup {[kind |-> k, dirs |-> <<>>, stem |-> "x", place |-> "outside", allow |-> a, allowset |-> a # <<>>]
            : k \in {"string", "frozen", "empty", "stdin"}, a \in Allows}
\* an allow-list that is SET but names nothing admits nothing
CasesE == Cases \cup {[kind |-> "real", dirs |-> d, stem |-> s, place |-> p, allow |-> <<>>, allowset |-> TRUE]
                       : d \in Dirs, s \in Stems, p \in {"outside", "root1", "link_into_root"}}
ASSUME JsonSerialize(IOEnv.OUT_FILE, SetToSeq(CasesE))
ASSUME PrintT(<<"USIZE", Cardinality(CasesE)>>)
VARIABLE x
Init == x = 0
Next == x' = x
=============================================================================
