INIT Init
NEXT Next
