------------------------------ MODULE MTDecodeMC ------------------------------
EXTENDS MTDecode
KindsMC == {"valid", "valid2", "renamed_param", "module_removed", "function_removed", "arg_class_removed",
            "return_class_removed", "yield_class_removed", "class_module_removed", "local_scope", "now_nonfunction",
            "now_class", "now_settable_property", "class_now_nontype", "class_now_nontype_ret",
            "class_module_removed_ret", "arg_class_removed_2", "nowraps", "now_closure", "prop_getter_nonfunction",
            "ret_unexported_builtin", "moved_function", "td_field_class_removed", "alias_of_removed", "now_proxy"}
=============================================================================
