SPECIFICATION Spec
PROPERTY ArgCell
PROPERTY RetCell
CHECK_DEADLOCK FALSE
