----------------------------- MODULE MTUniverse -----------------------------
(***************************************************************************)
(* Finite universes of runtime values (the value grammar of the            *)
(* properties: atoms, user classes and subclasses, class objects,          *)
(* callables, generator objects, nested list/set/tuple/dict/defaultdict,   *)
(* empty containers, None, container subclasses).                          *)
(* Containers(E, H, K, w): all containers of width <= w with elements      *)
(* from E, hashable elements from H (set members), keys from K.            *)
(***************************************************************************)
EXTENDS MTValues

SeqsUpTo(S, w) == UNION {[1..n -> S] : n \in 0..w}
SubsetsUpTo(S, w) == {X \in SUBSET S : Cardinality(X) <= w}

\* all functions from a key subset to E, as pair sequences in one fixed key order
PairSeqs(K, E, w) ==
  UNION { LET ks == SetToSeq(X) IN
          {[i \in 1..Len(ks) |-> VPair(ks[i], f[ks[i]])] : f \in [X -> E]}
        : X \in SubsetsUpTo(K, w) }

Containers(E, H, K, w) ==
       {VList(s)  : s \in SeqsUpTo(E, w)}
  \cup {VTuple(s) : s \in SeqsUpTo(E, w)}
  \cup {VSet(SetToSeq(X)) : X \in SubsetsUpTo(H, w)}
  \cup {VDict(p)  : p \in PairSeqs(K, E, w)}
  \cup {VDDict(p) : p \in PairSeqs(K, E, w)}

\* only some container kinds (to keep deeper universes small)
ContainersOf(kinds, E, H, K, w) ==
       (IF "list"  \in kinds THEN {VList(s)  : s \in SeqsUpTo(E, w)} ELSE {})
  \cup (IF "tuple" \in kinds THEN {VTuple(s) : s \in SeqsUpTo(E, w)} ELSE {})
  \cup (IF "set"   \in kinds THEN {VSet(SetToSeq(X)) : X \in SubsetsUpTo(H, w)} ELSE {})
  \cup (IF "dict"  \in kinds THEN {VDict(p)  : p \in PairSeqs(K, E, w)} ELSE {})
  \cup (IF "ddict" \in kinds THEN {VDDict(p) : p \in PairSeqs(K, E, w)} ELSE {})

\* ---- the standard alphabets ---------------------------------------------------------
AtomsSmall == {VAtom("int"), VStr("a"), VAtom("NoneType"), VAtom("mtfx.shapes.B")}
AtomsMid   == AtomsSmall \cup {VAtom("bool"), VAtom("mtfx.shapes.A"), VClassObj("mtfx.shapes.A"),
                               VFunc("function"), VGen, VAtom("mtfx.shapes.MyList")}
AtomsFull  == AtomsMid \cup {VAtom("float"), VAtom("mtfx.shapes.C"), VAtom("mtfx.shapes.D"),
                             VAtom("mtfx.shapes.E"), VClassObj("mtfx.shapes.B"), VClassObj("int"),
                             VFunc("builtin_function_or_method"), VFunc("method"),
                             VAtom("mtfx.shapes.MyDict"), VAtom("mtfx.shapes.MySet"),
                             VAtom("mtfx.shapes.MyTuple"), VAtom("mtfx.shapes.Outer.Inner"),
                             VAtom("bytes"), VStr("b")}
Hashable(S) == {v \in S : v.k \in {"atom", "str", "classobj", "func"} /\
                          ~(v.k = "atom" /\ \E b \in {"list", "dict", "set"} : IsA(v.n, b))}
KeysStd    == {VStr("a"), VStr("b"), VAtom("int")}
=============================================================================
