------------------------------ MODULE MTSignature ------------------------------
(***************************************************************************)
(* C12 / C13: how a stub signature is put together.                        *)
(* I-layer: stubs.update_signature_args / update_signature_return and      *)
(* render_parameter's Optional-for-None-default, transcribed.              *)
(* P-layer: the documented matrix  annotated? x traced? x strategy  per    *)
(* position, the receiver rule, the Iterator / Generator rule.             *)
(* A parameter is [name, kind, default, defnone, src, traced, self];       *)
(* src / traced are types or TAbsent.                                      *)
(***************************************************************************)
EXTENDS MTValues

IsAbs(t) == t.k = "absent"
IsOptionalT(t) == t.k = "union" /\ TNone \in t.u
OptionalOf(t) == MkUnion({t, TNone})

\* ---- I-layer ---------------------------------------------------------------------------
UpdArg(p, strategy) ==
  LET annotated == ~IsAbs(p.src)
      a1 == IF annotated /\ strategy = "OMIT" THEN TAbsent ELSE p.src
  IN  IF ~p.self /\ (strategy = "IGNORE" \/ ~annotated) THEN p.traced ELSE a1

\* render_parameter: an annotation next to a `None` default is shown as Optional
Shown(p, ann) == IF ~IsAbs(ann) /\ p.defnone /\ ~IsOptionalT(ann) THEN OptionalOf(ann) ELSE ann

RetOf(ret, yld) ==
  IF ~IsAbs(yld) /\ (IsAbs(ret) \/ ret = TNone) THEN TIterator(yld)
  ELSE IF ~IsAbs(yld) /\ ~IsAbs(ret) THEN TGenerator(yld, TNone, ret)
  ELSE ret
UpdRet(src, ret, yld, strategy) ==
  IF ~IsAbs(src) /\ strategy = "OMIT" THEN TAbsent
  ELSE IF ~IsAbs(src) /\ strategy = "REPLICATE" THEN src
  ELSE IF IsAbs(RetOf(ret, yld)) THEN src ELSE RetOf(ret, yld)

\* ---- P-layer ---------------------------------------------------------------------------
\* the annotations a position may carry
AllowedArg(p, strategy) ==
  LET annotated == ~IsAbs(p.src)  traced == ~IsAbs(p.traced)
      opt(t) == IF p.defnone THEN {Norm(t), Norm(OptionalOf(t))} ELSE {Norm(t)}
      \* "an annotated parameter whose default is None is shown as Optional of its annotation"
      kept(t) == IF p.defnone /\ ~IsOptionalT(t) THEN {Norm(OptionalOf(t))} ELSE {Norm(t)}
  IN  IF p.self THEN {TAbsent}                                   \* the receiver is never annotated (C12)
      ELSE CASE strategy = "REPLICATE" -> IF annotated THEN kept(p.src) ELSE IF traced THEN opt(p.traced) ELSE {TAbsent}
             [] strategy = "OMIT"      -> IF annotated THEN {TAbsent} ELSE IF traced THEN opt(p.traced) ELSE {TAbsent}
             [] strategy = "IGNORE"    -> IF traced THEN opt(p.traced)
                                          ELSE IF annotated THEN {TAbsent} \cup opt(p.src)   \* not stated either way
                                          ELSE {TAbsent}
AllowedRet(src, ret, yld, strategy) ==
  LET annotated == ~IsAbs(src)  t == RetOf(ret, yld)  traced == ~IsAbs(t)
  IN  CASE strategy = "REPLICATE" -> IF annotated THEN {Norm(src)} ELSE IF traced THEN {Norm(t)} ELSE {TAbsent}
        [] strategy = "OMIT"      -> IF annotated THEN {TAbsent} ELSE IF traced THEN {Norm(t)} ELSE {TAbsent}
        [] strategy = "IGNORE"    -> IF traced THEN {Norm(t)} ELSE IF annotated THEN {TAbsent, Norm(src)} ELSE {TAbsent}
=============================================================================
