--------------------------- MODULE MTTypeUniverse ---------------------------
(***************************************************************************)
(* Finite universes of TYPES for C07 / C08 / C11: atoms int, str, bool,    *)
(* NoneType, float; the user class hierarchy (single and multiple          *)
(* inheritance); List/Set/Dict/DefaultDict/Tuple incl. Tuple[()]/Type/     *)
(* Callable/Iterator[Any]/Generator; unions of 2..8 members; nesting <= 3. *)
(***************************************************************************)
EXTENDS MTValues

CA == "mtfx.shapes.A"   CB == "mtfx.shapes.B"   CC == "mtfx.shapes.C"
CD == "mtfx.shapes.D"   CE == "mtfx.shapes.E"

TAtomsSmall == {TCls("int"), TCls("str"), TNone, TCls(CB)}
TAtomsMid   == TAtomsSmall \cup {TCls("bool"), TCls(CA), TCls(CC)}
TAtomsFull  == TAtomsMid \cup {TCls("float"), TCls(CD), TCls(CE), TCls("mtfx.shapes.Outer.Inner"),
                               TCls("mtfx.shapes.MyList")}

\* containers (one level) over element set E, with the "empty container" forms C[Any]
Cont(E) ==
       {TList(e) : e \in E \cup {TAny}} \cup {TSet(e) : e \in E \cup {TAny}}
  \cup {TDict(TCls("str"), e) : e \in E} \cup {TDict(TCls("int"), e) : e \in E} \cup {TDict(TAny, TAny)}
  \cup {TDDict(TCls("str"), e) : e \in E} \cup {TDDict(TAny, TAny)}
  \cup {TTuple(<<>>)} \cup {TTuple(<<e>>) : e \in E} \cup {TTuple(<<e, e>>) : e \in E}
  \cup {TTuple(<<TCls("int"), e>>) : e \in E}
  \cup {TTypeOf(e) : e \in {x \in E : x.k = "cls"}}
  \cup {TCallable, TIterator(TAny)}
  \cup {TGenerator(e, TNone, TNone) : e \in E} \cup {TGenerator(e, TNone, TCls("int")) : e \in E}

Pairs(S) == {MkUnion({x, y}) : x \in S, y \in S} \ S
KUnions(S, n) == {MkUnion(X) : X \in kSubset(n, S)}

\* wrap a set of types one level deeper
Wrap(S) == {TList(t) : t \in S} \cup {TDict(TCls("str"), t) : t \in S} \cup {TTuple(<<t>>) : t \in S}
           \cup {TTuple(<<TCls("int"), t>>) : t \in S} \cup {TSet(t) : t \in S}
           \cup {TDDict(TCls("str"), t) : t \in S} \cup {TGenerator(t, TNone, TNone) : t \in S}
           \cup {MkUnion({t, TNone}) : t \in S}

\* pools for large unions (RewriteLargeUnion): all-classes, all-tuples, mixed
ClassPool == {TCls("int"), TCls("str"), TNone, TCls(CA), TCls(CB), TCls(CC), TCls(CD), TCls(CE), TCls("bool")}
SubclassPool == {TCls(CA), TCls(CB), TCls(CC), TCls(CD), TCls("mtfx.shapes.B2"), TCls("mtfx.shapes.B3")} \cup
                {TCls("mtfx.shapes.X1"), TCls("mtfx.shapes.X2"), TCls("mtfx.shapes.X3"),
                 TCls("mtfx.shapes.Y1"), TCls("mtfx.shapes.Y2"), TCls("mtfx.shapes.Y3")}
TuplePool == {TTuple(<<>>), TTuple(<<TCls("int")>>), TTuple(<<TCls("int"), TCls("int")>>),
              TTuple(<<TCls("int"), TCls("int"), TCls("int")>>), TTuple(<<TCls("str")>>),
              TTuple(<<TCls("int"), TCls("str")>>), TTuple(<<TCls(CB)>>), TTuple(<<TCls(CB), TCls(CB)>>)}
MixedPool == {TCls("int"), TCls(CB), TNone, TList(TCls("int")), TList(TAny), TDict(TCls("str"), TCls("int")),
              TDict(TCls("str"), TCls("str")), TTuple(<<>>), TTuple(<<TCls("int")>>), TCallable, TIterator(TAny),
              TTypeOf(TCls(CA)), TSet(TAny), TSet(TCls("str"))}
\* three-level single inheritance: A > B > {B2, B3}, A > C
DeepPool == {TCls(CA), TCls(CB), TCls(CC), TCls("mtfx.shapes.B2"), TCls("mtfx.shapes.B3"), TCls(CE)}
BigUnions(P, lo, hi) == UNION {KUnions(P, n) : n \in lo..hi}

CtxUser == {TCls("zutil.A"), TCls("zutil.zutil"), TCls("zutil.Outer.Inner"), TCls("zpkg.zutil.B"), TCls("zpkg.zutil.A"),
            TCls("zfoo.Baz"), TCls("barzfoo.Qux"), TCls("zfoo_v2.W"), TCls("_io.StringIO"),
            \* a package next to its own submodule; a module whose name ends with `typing`; `NoneType` inside a class name
            TCls("zpkg.PkgTop"), TCls("zmytyping.Foo"), TCls("zmytyping.MyNoneTypeBox"),
            \* a private top-level module (only `_io` has a public twin that re-exports its classes)
            TCls("_zledger.Account"),
            \* application classes named like typing constructs
            TCls("mtfx.lookalikes.List"), TCls("mtfx.lookalikes.Union")}
CtxAtoms == CtxUser \cup {TCls("int"), TNone}

TD1(fs) == TTD(fs)
TDPool == {TTD({TReq("a", TCls("int"))}), TTD({TReq("a", TCls("str"))}),
           TTD({TReq("a", TCls("int")), TOpt("b", TCls("str"))}),
           TTD({TOpt("b", TCls("int"))}),
           TTD({TReq("a", TList(TAny))}), TTD({TReq("a", TTD({TReq("x", TCls("int"))}))}),
           TTD({TReq("a", MkUnion({TList(TAny), TList(TCls("int"))}))}),
           \* several keys of one kind (their insertion order is not part of the structure)
           TTD({TReq("a", TCls("int")), TReq("b", TCls("str"))}),
           TTD({TReq("b", TCls("int")), TReq("a", TList(TCls("int"))), TReq("c", TNone)}),
           TTD({TOpt("x", TCls("int")), TOpt("y", TCls("str")), TReq("a", TCls("int"))})}
=============================================================================
