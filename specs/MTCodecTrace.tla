---------------------------- MODULE MTCodecTrace ----------------------------
(***************************************************************************)
(* Batch validation of recorded encode/decode runs against MTCodecP.       *)
(*  {tid, ev:"T", ty, back, err, enc (abstract form of the real JSON),     *)
(*   encs:[json text of structurally equal variants...]}                   *)
(*  {tid, ev:"C", orig:{args:[{n,ty}],ret,yld}, back:{same,args,ret,yld},  *)
(*   err}                                                                  *)
(* The real JSON is also handed to the I-layer: drift = the spec's Encode  *)
(* differs from the real encoding, or the spec's Decode of the REAL        *)
(* encoding differs from what the real decoder returned.                   *)
(***************************************************************************)
EXTENDS MTCodec, MTCodecP, Json, IOUtils

Recs == ndJsonDeserialize(IOEnv.TRACE_FILE)
N == Len(Recs)

VARIABLES i
vars == <<i>>
Init == i = 1

ArgSet(s) == {[n |-> s[j].n, ty |-> J2T(s[j].ty)] : j \in 1..Len(s)}
CT(r) == [args |-> ArgSet(r.args), ret |-> J2T(r.ret), yld |-> J2T(r.yld)]

TypeRec(rec) ==
  LET ty   == J2T(rec.ty)
      back == J2T(rec.back)
      enc  == J2T(rec.enc)
      viol == TypeViol(ty, back, rec.err, rec.encs)
      drift == \/ (rec.err = "NONE" /\ (Encode(ty) # enc \/ Decode(enc, FixtureEnv) # back))
               \/ (rec.err # "NONE" /\ ~IsCErr(Encode(ty)))
  IN (viol # {} \/ drift) => PrintT(<<"V", ToJson([tid |-> rec.tid, viol |-> viol, drift |-> drift])>>)

CallRec(rec) ==
  LET orig == CT(rec.orig)
      back == [same |-> rec.back.same] @@ CT(rec.back)
      viol == TraceViol(orig, back, rec.err, rec.rows_equal)
  IN viol # {} => PrintT(<<"V", ToJson([tid |-> rec.tid, viol |-> viol, drift |-> FALSE])>>)

Step == /\ i <= N
        /\ IF Recs[i].ev = "T" THEN TypeRec(Recs[i]) ELSE CallRec(Recs[i])
        /\ i' = i + 1

Done == /\ i = N + 1
        /\ PrintT(<<"DONE", ToJson([n |-> N])>>)
        /\ i' = N + 2

Next == Step \/ Done
Spec == Init /\ [][Next]_vars
=============================================================================
