----------------------------- MODULE MTRewriteP -----------------------------
(***************************************************************************)
(* P-layer for C07: what any type rewriter shipped with MonkeyType may do. *)
(*   NoCrash       rewriting completes without error                       *)
(*   NeverNarrows  the result admits every value the input admitted:       *)
(*                 pre <: post (covariant, Any compatible both ways), and   *)
(*                 every witness value of pre is still a member of post    *)
(*   OnlyOnTrigger the type is left unchanged unless the rewriter's        *)
(*                 documented trigger occurs somewhere inside it           *)
(* Triggers are written from the documentation, not from the code.         *)
(***************************************************************************)
EXTENDS MTValues

RECURSIVE SubTerms(_)
SubTerms(t) == {t} \cup UNION {SubTerms(t.a[i]) : i \in 1..Len(t.a)} \cup UNION {SubTerms(m) : m \in t.u}

\* gradual subtyping: Any is compatible in both directions
RECURSIVE SubG(_, _)
SubG(S, T) ==
  IF S = T \/ T.k = "any" \/ S.k = "any" THEN TRUE
  ELSE IF S.k = "union" THEN \A m \in S.u : SubG(m, T)
  ELSE IF T.k = "union" THEN \E m \in T.u : SubG(S, m)
  ELSE
  CASE T.k = "cls" ->
         CASE S.k = "cls"    -> IsA(S.n, T.n)
           [] S.k \in {"list", "set", "dict", "tuple", "tuplevar"} ->
                                IsA(IF S.k = "tuplevar" THEN "tuple" ELSE S.k, T.n)
           [] S.k = "ddict"  -> IsA("collections.defaultdict", T.n)
           [] S.k = "td"     -> IsA("dict", T.n)
           [] S.k = "typeof" -> IsA("type", T.n)
           [] OTHER          -> T.n = "object"
    [] T.k \in {"list", "set", "typeof", "iterator", "iterable"} /\ S.k = T.k -> SubG(S.a[1], T.a[1])
    [] T.k = "iterable" /\ S.k = "iterator" -> SubG(S.a[1], T.a[1])
    [] T.k \in {"iterator", "iterable"} /\ S.k = "generator" -> SubG(S.a[1], T.a[1])
    [] T.k = "generator" /\ S.k = "generator" -> \A i \in 1..3 : SubG(S.a[i], T.a[i])
    [] T.k = "dict" /\ S.k \in {"dict", "ddict"} -> SubG(S.a[1], T.a[1]) /\ SubG(S.a[2], T.a[2])
    [] T.k = "dict" /\ S.k = "td" -> SubG(TCls("str"), T.a[1]) /\ \A f \in S.u : SubG(f.a[1], T.a[2])
    [] T.k = "ddict" /\ S.k = "ddict" -> SubG(S.a[1], T.a[1]) /\ SubG(S.a[2], T.a[2])
    [] T.k = "tuple" /\ S.k = "tuple" ->
          Len(S.a) = Len(T.a) /\ \A i \in 1..Len(S.a) : SubG(S.a[i], T.a[i])
    [] T.k = "tuplevar" /\ S.k = "tuple" -> \A i \in 1..Len(S.a) : SubG(S.a[i], T.a[1])
    [] T.k = "tuplevar" /\ S.k = "tuplevar" -> SubG(S.a[1], T.a[1])
    [] T.k = "callable" /\ S.k = "typeof" -> TRUE
    [] T.k = "td" /\ S.k = "td" ->
          /\ \A f \in S.u : \E g \in T.u : g.n = f.n /\ SubG(f.a[1], g.a[1]) /\ (g.k = "req" => f.k = "req")
          /\ \A g \in T.u : g.k = "req" => \E f \in S.u : f.n = g.n
    [] OTHER -> FALSE

\* a generic type all of whose arguments are Any: how MonkeyType types an EMPTY container
\* (RemoveEmptyContainers' own notion, "C[Any]"; Iterator[Any], the fixed type of generator
\* objects, has the same shape and is read as one - the lenient reading)
ContainerKinds == {"list", "set", "dict", "ddict", "tuple", "tuplevar", "iterator", "iterable", "generator", "typeof"}
IsEmptyContainer(t) == t.k \in ContainerKinds /\ Len(t.a) > 0 /\ \A i \in 1..Len(t.a) : t.a[i].k = "any"
IsNonEmptyContainer(t) == t.k \in ContainerKinds /\ ~IsEmptyContainer(t)

Unions(t) == {s \in SubTerms(t) : s.k = "union"}

\* "an empty container is dropped only next to a non-empty container of the same kind"
TrigREC(t) == \E u \in Unions(t) : \E m \in u.u : \E m2 \in u.u :
                 IsEmptyContainer(m) /\ m2.k = m.k /\ IsNonEmptyContainer(m2)
\* "a union is collapsed only when it has more members than the configured maximum"
TrigRLU(t, n) == \E u \in Unions(t) : Cardinality(u.u) > n
\* "dict unions are merged only when all members are dicts with one key type"
TrigRCD(t) == \E u \in Unions(t) : /\ \A m \in u.u : m.k = "dict"
                                   /\ \A m1 \in u.u : \A m2 \in u.u : m1.a[1] = m2.a[1]
\* "only unions of plain classes are replaced by a common base"
\* (a TypedDict type is a class whose base is dict, so it counts as a plain class here)
TrigMSCB(t) == \E u \in Unions(t) : \A m \in u.u : m.k \in {"cls", "td", "named"}
\* Generator[Y, None, None] -> Iterator[Y]
TrigRG(t) == \E g \in SubTerms(t) : g.k = "generator" /\ g.a[2] = TNone /\ g.a[3] = TNone

Trigger(rw, t) ==
  CASE rw = "REC"  -> TrigREC(t)
    [] rw = "RCD"  -> TrigRCD(t)
    [] rw = "RLU2" -> TrigRLU(t, 2)
    [] rw = "RLU5" -> TrigRLU(t, 5)
    [] rw = "MSCB" -> TrigMSCB(t)
    [] rw = "RG"   -> TrigRG(t)
    [] rw = "NOOP" -> FALSE
    [] OTHER       -> FALSE

\* rewriters named from live instances: RLU with another maximum; unknown rewriters have no documented trigger
\* rawu = the largest number of members of any typing.Union object inside the real input: two
\* structurally equal anonymous TypedDicts are distinct members of a real Union (they hash by
\* identity) although the abstract union, a set, holds them once.
TriggerN(rw, n, rawu, t) ==
  IF rw = "RLUn" THEN TrigRLU(t, n) \/ rawu > n
  ELSE IF rw = "RLU2" THEN TrigRLU(t, 2) \/ rawu > 2
  ELSE IF rw = "RLU5" THEN TrigRLU(t, 5) \/ rawu > 5
  ELSE IF rw = "OTHER" THEN TRUE
  ELSE Trigger(rw, t)

(***************************************************************************)
(* OnlyOnTrigger, positionally.  "The type has a trigger somewhere" is too  *)
(* weak a licence: a large union nested in a member of a small union would  *)
(* excuse collapsing the SMALL union.  A step is EXPLAINED when every        *)
(* difference between input and output sits at or below a node that itself  *)
(* carries the rewriter's trigger (LocalTrig); above such nodes the output   *)
(* has the input's shape - a union's members correspond one to one, or many *)
(* to one where members coincide after the work done inside them.           *)
(***************************************************************************)
MaxOf(rw, n) == IF rw = "RLU2" THEN 2 ELSE IF rw = "RLU5" THEN 5 ELSE n
LocalTrig(rw, n, t) ==
  CASE rw = "REC" -> t.k = "union" /\ \E m \in t.u : \E m2 \in t.u : IsEmptyContainer(m) /\ m2.k = m.k /\ IsNonEmptyContainer(m2)
    [] rw \in {"RLU2", "RLU5", "RLUn"} -> t.k = "union" /\ Cardinality(t.u) > MaxOf(rw, n)
    [] rw = "RCD" -> t.k = "union" /\ (\A m \in t.u : m.k = "dict") /\ (\A m1 \in t.u : \A m2 \in t.u : m1.a[1] = m2.a[1])
    [] rw = "MSCB" -> t.k = "union" /\ \A m \in t.u : m.k \in {"cls", "td", "named"}
    [] rw = "RG" -> t.k = "generator" /\ t.a[2] = TNone /\ t.a[3] = TNone
    [] rw = "OTHER" -> TRUE
    [] OTHER -> FALSE

RECURSIVE Explained(_, _, _, _)
Explained(rw, n, pre, post) ==
  \/ pre = post
  \/ LocalTrig(rw, n, pre)
  \/ /\ pre.k = "union"
     /\ LET pm == IF post.k = "union" THEN post.u ELSE {post} IN
          /\ \A m2 \in pm : \E m \in pre.u : Explained(rw, n, m, m2)
          /\ \A m \in pre.u : \E m2 \in pm : Explained(rw, n, m, m2)
  \/ /\ pre.k \notin {"union", "td"} /\ post.k = pre.k /\ post.n = pre.n /\ Len(post.a) = Len(pre.a) /\ post.u = pre.u
     /\ \A j \in 1..Len(pre.a) : Explained(rw, n, pre.a[j], post.a[j])
  \/ /\ pre.k = "td" /\ post.k = "td" /\ Cardinality(post.u) = Cardinality(pre.u)
     /\ \A f \in pre.u : \E g \in post.u : g.k = f.k /\ g.n = f.n /\ Explained(rw, n, f.a[1], g.a[1])

\* the real input holds a Union with more members than any union of its abstract image (equal anonymous TypedDicts are distinct
\* members of a real Union) and more than the maximum: the abstract term cannot place the trigger, the coarse reading stands
AbsMaxU(t) == IF Unions(t) = {} THEN 0 ELSE CHOOSE c \in {Cardinality(u.u) : u \in Unions(t)} : \A u \in Unions(t) : Cardinality(u.u) <= c
RawLarger(rw, n, rawu, t) == rw \in {"RLU2", "RLU5", "RLUn"} /\ rawu > MaxOf(rw, n) /\ rawu > AbsMaxU(t)

NeverNarrows(pre, post, seen) ==
  /\ SubG(pre, post)
  /\ \A v \in seen : Member(v, pre) => Member(v, post)

\* one rewriter step: names of the falsified clauses
RewriteViol(rw, n, rawu, pre, post, err, seen) ==
  IF err # "NONE" THEN {"NoCrash"}
  ELSE   (IF NeverNarrows(pre, post, seen) THEN {} ELSE {"NeverNarrows"})
    \cup (IF post # pre /\ ~TriggerN(rw, n, rawu, pre) THEN {"OnlyOnTrigger"} ELSE {})
    \* (rawu: a real Union may hold more members than the abstract set - equal anonymous TypedDicts; then the coarse reading stands)
    \cup (IF post # pre /\ ~RawLarger(rw, n, rawu, pre) /\ ~Explained(rw, n, pre, post) THEN {"OnlyOnTrigger"} ELSE {})
=============================================================================
