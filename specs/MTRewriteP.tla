----------------------------- MODULE MTRewriteP -----------------------------
(***************************************************************************)
(* P-layer for C07: what any type rewriter shipped with MonkeyType may do. *)
(*   NoCrash       rewriting completes without error                       *)
(*   NeverNarrows  the result admits every value the input admitted:       *)
(*                 pre <: post (covariant, Any compatible both ways), and   *)
(*                 every witness value of pre is still a member of post    *)
(*   OnlyOnTrigger the type is left unchanged unless the rewriter's        *)
(*                 documented trigger occurs somewhere inside it           *)
(* Triggers are written from the documentation, not from the code.         *)
(***************************************************************************)
EXTENDS MTValues

RECURSIVE SubTerms(_)
SubTerms(t) == {t} \cup UNION {SubTerms(t.a[i]) : i \in 1..Len(t.a)} \cup UNION {SubTerms(m) : m \in t.u}

\* gradual subtyping: Any is compatible in both directions
RECURSIVE SubG(_, _)
SubG(S, T) ==
  IF S = T \/ T.k = "any" \/ S.k = "any" THEN TRUE
  ELSE IF S.k = "union" THEN \A m \in S.u : SubG(m, T)
  ELSE IF T.k = "union" THEN \E m \in T.u : SubG(S, m)
  ELSE
  CASE T.k = "cls" ->
         CASE S.k = "cls"    -> IsA(S.n, T.n)
           [] S.k \in {"list", "set", "dict", "tuple", "tuplevar"} ->
                                IsA(IF S.k = "tuplevar" THEN "tuple" ELSE S.k, T.n)
           [] S.k = "ddict"  -> IsA("collections.defaultdict", T.n)
           [] S.k = "td"     -> IsA("dict", T.n)
           [] S.k = "typeof" -> IsA("type", T.n)
           [] OTHER          -> T.n = "object"
    [] T.k \in {"list", "set", "typeof", "iterator", "iterable"} /\ S.k = T.k -> SubG(S.a[1], T.a[1])
    [] T.k = "iterable" /\ S.k = "iterator" -> SubG(S.a[1], T.a[1])
    [] T.k \in {"iterator", "iterable"} /\ S.k = "generator" -> SubG(S.a[1], T.a[1])
    [] T.k = "generator" /\ S.k = "generator" -> \A i \in 1..3 : SubG(S.a[i], T.a[i])
    [] T.k = "dict" /\ S.k \in {"dict", "ddict"} -> SubG(S.a[1], T.a[1]) /\ SubG(S.a[2], T.a[2])
    [] T.k = "dict" /\ S.k = "td" -> SubG(TCls("str"), T.a[1]) /\ \A f \in S.u : SubG(f.a[1], T.a[2])
    [] T.k = "ddict" /\ S.k = "ddict" -> SubG(S.a[1], T.a[1]) /\ SubG(S.a[2], T.a[2])
    [] T.k = "tuple" /\ S.k = "tuple" ->
          Len(S.a) = Len(T.a) /\ \A i \in 1..Len(S.a) : SubG(S.a[i], T.a[i])
    [] T.k = "tuplevar" /\ S.k = "tuple" -> \A i \in 1..Len(S.a) : SubG(S.a[i], T.a[1])
    [] T.k = "tuplevar" /\ S.k = "tuplevar" -> SubG(S.a[1], T.a[1])
    [] T.k = "callable" /\ S.k = "typeof" -> TRUE
    [] T.k = "td" /\ S.k = "td" ->
          /\ \A f \in S.u : \E g \in T.u : g.n = f.n /\ SubG(f.a[1], g.a[1]) /\ (g.k = "req" => f.k = "req")
          /\ \A g \in T.u : g.k = "req" => \E f \in S.u : f.n = g.n
    [] OTHER -> FALSE

\* a generic type all of whose arguments are Any: how MonkeyType types an EMPTY container
\* (RemoveEmptyContainers' own notion, "C[Any]"; Iterator[Any], the fixed type of generator
\* objects, has the same shape and is read as one - the lenient reading)
ContainerKinds == {"list", "set", "dict", "ddict", "tuple", "tuplevar", "iterator", "iterable", "generator", "typeof"}
IsEmptyContainer(t) == t.k \in ContainerKinds /\ Len(t.a) > 0 /\ \A i \in 1..Len(t.a) : t.a[i].k = "any"
IsNonEmptyContainer(t) == t.k \in ContainerKinds /\ ~IsEmptyContainer(t)

Unions(t) == {s \in SubTerms(t) : s.k = "union"}

\* "an empty container is dropped only next to a non-empty container of the same kind"
TrigREC(t) == \E u \in Unions(t) : \E m \in u.u : \E m2 \in u.u :
                 IsEmptyContainer(m) /\ m2.k = m.k /\ IsNonEmptyContainer(m2)
\* "a union is collapsed only when it has more members than the configured maximum"
TrigRLU(t, n) == \E u \in Unions(t) : Cardinality(u.u) > n
\* "dict unions are merged only when all members are dicts with one key type"
TrigRCD(t) == \E u \in Unions(t) : /\ \A m \in u.u : m.k = "dict"
                                   /\ \A m1 \in u.u : \A m2 \in u.u : m1.a[1] = m2.a[1]
\* "only unions of plain classes are replaced by a common base"
\* (a TypedDict type is a class whose base is dict, so it counts as a plain class here)
TrigMSCB(t) == \E u \in Unions(t) : \A m \in u.u : m.k \in {"cls", "td", "named"}
\* Generator[Y, None, None] -> Iterator[Y]
TrigRG(t) == \E g \in SubTerms(t) : g.k = "generator" /\ g.a[2] = TNone /\ g.a[3] = TNone

Trigger(rw, t) ==
  CASE rw = "REC"  -> TrigREC(t)
    [] rw = "RCD"  -> TrigRCD(t)
    [] rw = "RLU2" -> TrigRLU(t, 2)
    [] rw = "RLU5" -> TrigRLU(t, 5)
    [] rw = "MSCB" -> TrigMSCB(t)
    [] rw = "RG"   -> TrigRG(t)
    [] rw = "NOOP" -> FALSE
    [] OTHER       -> FALSE

\* rewriters named from live instances: RLU with another maximum; unknown rewriters have no documented trigger
\* rawu = the largest number of members of any typing.Union object inside the real input: two
\* structurally equal anonymous TypedDicts are distinct members of a real Union (they hash by
\* identity) although the abstract union, a set, holds them once.
TriggerN(rw, n, rawu, t) ==
  IF rw = "RLUn" THEN TrigRLU(t, n) \/ rawu > n
  ELSE IF rw = "RLU2" THEN TrigRLU(t, 2) \/ rawu > 2
  ELSE IF rw = "RLU5" THEN TrigRLU(t, 5) \/ rawu > 5
  ELSE IF rw = "OTHER" THEN TRUE
  ELSE Trigger(rw, t)

NeverNarrows(pre, post, seen) ==
  /\ SubG(pre, post)
  /\ \A v \in seen : Member(v, pre) => Member(v, post)

\* one rewriter step: names of the falsified clauses
RewriteViol(rw, n, rawu, pre, post, err, seen) ==
  IF err # "NONE" THEN {"NoCrash"}
  ELSE   (IF NeverNarrows(pre, post, seen) THEN {} ELSE {"NeverNarrows"})
    \cup (IF post # pre /\ ~TriggerN(rw, n, rawu, pre) THEN {"OnlyOnTrigger"} ELSE {})
=============================================================================
