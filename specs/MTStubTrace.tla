----------------------------- MODULE MTStubTrace -----------------------------
(***************************************************************************)
(* P-layer for C11 / C12 / C13 as batch validation of rendered stubs.      *)
(* One ndjson line per generated module stub:                              *)
(* {tid, strategy, parses, extra:[names of stub functions nobody traced],  *)
(*  tdok (every TypedDict class stub has its base provided),               *)
(*  funcs:[{key, count, placed, decok, asyncok,                            *)
(*          live:[{name, kind, default}], stub:[{name, kind, default}],    *)
(*          cells:[{pos, self, defnone, src, traced, got}],                *)
(*          srcret, tret, tyld, gotret}]}                                  *)
(* live = inspect.signature of the live function (ground truth recorded    *)
(* by the harness); got = the annotation text of the stub evaluated with   *)
(* the names the stub itself provides, or [k |-> "unresolved"].            *)
(***************************************************************************)
EXTENDS MTSignature, Json, IOUtils

Recs == ndJsonDeserialize(IOEnv.TRACE_FILE)
N == Len(Recs)
VARIABLES i
vars == <<i>>
Init == i = 1

Unres(t) == t.k = "unresolved"
RECURSIVE HasUnres(_)
HasUnres(t) == Unres(t) \/ (\E j \in 1..Len(t.a) : HasUnres(t.a[j])) \/ (\E m \in t.u : HasUnres(m))

CellViol(c, strategy) ==
  LET p == [name |-> c.pos, defnone |-> c.defnone, self |-> c.self, src |-> J2T(c.src), traced |-> J2T(c.traced)]
      got == J2T(c.got)
  IN  IF HasUnres(got) THEN {"SelfContained"}
      ELSE IF Norm(got) \in AllowedArg(p, strategy) THEN {}
      \* an annotated receiver that keeps its annotation under OMIT breaks C13's omit clause as well as C12's
      ELSE IF c.self THEN (IF ~IsAbs(p.src) /\ strategy = "OMIT" THEN {"ReceiverBare", "AnnotationMatrix"} ELSE {"ReceiverBare"})
      ELSE IF IsAbs(p.src) /\ ~IsAbs(p.traced) THEN {"DenotesSame"}
      ELSE {"AnnotationMatrix"}

RetViol(f, strategy) ==
  LET got == J2T(f.gotret) src == J2T(f.srcret) ret == J2T(f.tret) yld == J2T(f.tyld)
  IN  IF HasUnres(got) THEN {"SelfContained"}
      ELSE IF Norm(got) \in AllowedRet(src, ret, yld, strategy) THEN {}
      ELSE IF IsAbs(src) /\ ~IsAbs(RetOf(ret, yld)) THEN (IF IsAbs(yld) THEN {"DenotesSame"} ELSE {"GeneratorReturn"})
      ELSE {"AnnotationMatrix"}

FuncViol(f, strategy) ==
  IF f.count = 0 THEN {"ExactlyTraced"}
  ELSE   (IF f.count # 1 THEN {"ExactlyTraced"} ELSE {})
    \cup (IF ~f.placed THEN {"Placed"} ELSE {})
    \cup (IF ~f.decok \/ ~f.asyncok THEN {"Decorated"} ELSE {})
    \cup (IF f.live # f.stub THEN {"MirrorsSignature"} ELSE {})
    \cup UNION {CellViol(f.cells[j], strategy) : j \in 1..Len(f.cells)}
    \cup RetViol(f, strategy)

Viol(r) ==
  IF ~r.parses THEN {"Parses"}
  ELSE   (IF Len(r.extra) > 0 THEN {"ExactlyTraced"} ELSE {})
    \cup (IF ~r.tdok THEN {"SelfContained"} ELSE {})
    \cup UNION {FuncViol(r.funcs[j], r.strategy) : j \in 1..Len(r.funcs)}

Step == /\ i <= N
        /\ LET v == Viol(Recs[i]) IN
           v # {} => PrintT(<<"V", ToJson([tid |-> Recs[i].tid, viol |-> v, drift |-> FALSE])>>)
        /\ i' = i + 1
Done == /\ i = N + 1 /\ PrintT(<<"DONE", ToJson([n |-> N])>>) /\ i' = N + 2
Next == Step \/ Done
Spec == Init /\ [][Next]_vars
=============================================================================
