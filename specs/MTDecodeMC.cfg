SPECIFICATION Spec
CONSTANTS
  Kinds <- KindsMC
  MaxRows = 3
  Dev_NoWrapsEscapes = FALSE
INVARIANT NeverFatal
INVARIANT SkipsExactly
INVARIANT NoTracesIff
CHECK_DEADLOCK FALSE
