------------------------------ MODULE MTStoreMC ------------------------------
(* Model-checking wrapper for MTStore: the collision alphabet of C09 (names that collide under
   case-folding and SQL wildcards), batches with unserialisable traces, bounds, path export. *)
EXTENDS MTStore, Json

CONSTANTS MaxDepth

ConnMC == {"c1", "c2"}
RowsMC == {"r1", "r2", "r3", "r4", "r5", "r6", "r7", "r8", "r9", "r10", "r11"}
RowModMC == "r1" :> "m1" @@ "r2" :> "m1" @@ "r3" :> "m1" @@ "r4" :> "m1" @@ "r5" :> "m1" @@ "r6" :> "m2" @@ "r7" :> "m1" @@ "r8" :> "m1" @@ "r9" :> "m1" @@ "r10" :> "m1" @@ "r11" :> "m1"
RowQnMC == "r1" :> <<109, 121, 95, 102, 117, 110, 99>> @@ "r2" :> <<109, 121, 88, 102, 117, 110, 99>> @@ "r3" :> <<77, 89, 95, 70, 85, 78, 67>> @@ "r4" :> <<70, 111, 111, 46, 98, 97, 114>> @@ "r5" :> <<102, 111, 111>> @@ "r6" :> <<109, 121, 95, 102, 117, 110, 99>> @@ "r7" :> <<97, 37, 98>> @@ "r8" :> <<97, 88, 98>> @@ "r9" :> <<109, 121, 95, 102, 117, 110, 99>> @@ "r10" :> <<109, 121, 95, 102, 117, 110, 99>> @@ "r11" :> <<109, 121, 95, 102, 117, 110, 99>>
BatchesMC == "b1" :> [rows |-> {"r1", "r2"}, bad |-> 0] @@ "b2" :> [rows |-> {"r3", "r5", "r1"}, bad |-> 1] @@ "b3" :> [rows |-> {"r4", "r6", "r9"}, bad |-> 0] @@ "b4" :> [rows |-> {"r7", "r8", "r10"}, bad |-> 1] @@ "b5" :> [rows |-> {}, bad |-> 2] @@ "b6" :> [rows |-> {"r11", "r9", "r10"}, bad |-> 0]
ModsMC == {"m1", "m2"}
QPrefixesMC == {NoPrefix, <<109, 121, 95, 102, 117, 110, 99>>, <<102, 111, 111>>, <<109, 121>>, <<97, 37>>, <<70, 111, 111, 46>>}
LimitsMC == {1, 2000}
QPrefixesOne == {NoPrefix}

DepthOK == TLCGet("level") <= MaxDepth
View == <<disk, txn, alive, lock, journal, out>>

Emit == (TLCGet("level") = MaxDepth + 1 \/ ~ENABLED Next) => PrintT(<<"H", ToJson([hist |-> hist])>>)
=============================================================================
