------------------------------ MODULE MTLoggerMC ------------------------------
EXTENDS MTLogger, TLC, Json
CONSTANT MaxDepth
Bound == TLCGet("level") <= MaxDepth
\* behaviour export: every maximal path within the bound (BFS) or every simulated behaviour
Emit == (TLCGet("level") = MaxDepth + 1 \/ ~ENABLED Next) => PrintT(<<"H", ToJson([hist |-> hist])>>)
View == <<buf, store, avail, logged>>
=============================================================================
