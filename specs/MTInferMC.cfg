SPECIFICATION Spec
CONSTANTS
  Ks = {0, 1, 2, 3}
  MaxObs = 2
  UName = "small1"
INVARIANT Inv_Sound
INVARIANT Inv_Tight
INVARIANT Inv_TDBound
INVARIANT Inv_Normal
CHECK_DEADLOCK FALSE
