SPECIFICATION Spec
CONSTANTS
  Funcs <- FuncsMC
  Kind <- KindMC
  Wanted <- WantedMC
  Vals <- ValsMC
  MaxFrames = 3
  MaxDepth = 8
  Rate = 0
  AllowThrow = TRUE
  AllowDrop = TRUE
  AllowDelegate = TRUE
  Dev_ReturnConst = FALSE
  Dev_AwaitIsYield = FALSE
  Dev_ThrowIsYield = FALSE
  Dev_Resample = FALSE
  Dev_AgenWrapped = FALSE
CONSTRAINT DepthOK
VIEW View
INVARIANT ExactlyOnceInOrder
INVARIANT SampledSubset
INVARIANT NoResidue
CHECK_DEADLOCK FALSE
