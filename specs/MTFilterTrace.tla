---------------------------- MODULE MTFilterTrace ----------------------------
(***************************************************************************)
(* Batch validation for C17: one ndjson line per observation.              *)
(*  Admit {tid, kind, resolved, roots, module, allow, allowset, stem,      *)
(*         verdict}       verdict = what the real default_code_filter said *)
(*  Run   {tid, modules:[...], expected:[...], got:[...]}                  *)
(*         rows in the store after `monkeytype run` of a generated script: *)
(*         never module __main__; every admitted call of the user module   *)
(***************************************************************************)
EXTENDS MTFilter, Json, IOUtils

Recs == ndJsonDeserialize(IOEnv.TRACE_FILE)
N == Len(Recs)
VARIABLES i
vars == <<i>>
Init == i = 1

ToS(s) == {s[j] : j \in 1..Len(s)}
Viol(r) ==
  IF r.ev = "Admit"
  THEN IF r.verdict = Expected(r) THEN {} ELSE {IF r.verdict THEN "OverAdmits" ELSE "UnderAdmits"}
  ELSE   (IF "__main__" \in ToS(r.modules) THEN {"NeverMain"} ELSE {})
    \cup (IF ~(ToS(r.expected) \subseteq ToS(r.got)) THEN {"AllAdmittedRecorded"} ELSE {})
    \cup (IF ~(ToS(r.got) \subseteq ToS(r.expected)) THEN {"OnlyAdmittedRecorded"} ELSE {})
Drift(r) == r.ev = "Admit" /\ r.verdict # Code(r)

Step == /\ i <= N
        /\ LET v == Viol(Recs[i]) d == Drift(Recs[i]) IN
           (v # {} \/ d) => PrintT(<<"V", ToJson([tid |-> Recs[i].tid, viol |-> v, drift |-> d])>>)
        /\ i' = i + 1
Done == /\ i = N + 1 /\ PrintT(<<"DONE", ToJson([n |-> N])>>) /\ i' = N + 2
Next == Step \/ Done
Spec == Init /\ [][Next]_vars
=============================================================================
