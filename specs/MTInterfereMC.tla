---------------------------- MODULE MTInterfereMC ----------------------------
EXTENDS MTInterfere, Json
Emit == (~ENABLED Next) => PrintT(<<"H", ToJson([hist |-> hist, flushFails |-> flushFails, prev |-> prev])>>)
=============================================================================
