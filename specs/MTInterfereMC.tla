---------------------------- MODULE MTInterfereMC ----------------------------
EXTENDS MTInterfere, Json
Emit == (~ENABLED Next) => PrintT(<<"H", ToJson([hist |-> hist, flushFails |-> flushFails, prev0 |-> IF Len(hist) > 0 THEN hist[1].x ELSE prev])>>)
=============================================================================
