-------------------------------- MODULE MTCli --------------------------------
(***************************************************************************)
(* Specification growth beyond the listed properties: the command-line     *)
(* surface over a store, as observable behaviour.                          *)
(*                                                                         *)
(* Store: a set of distinct rows [id, mod, fn (qualified name), ok].       *)
(* Commands and what must be observed:                                     *)
(*  list-modules        stdout lists exactly the modules that have rows,   *)
(*                      each once; exit 0                                  *)
(*  stub m[:prefix] --limit n --sample-count                               *)
(*                      at most n rows of module m whose qualified name    *)
(*                      starts with prefix are used; stderr has one        *)
(*                      "Annotation for <m.fn> based on <c> call trace(s)" *)
(*                      line per stubbed function, the counts sum to the   *)
(*                      number of rows that decoded, and the stub defines  *)
(*                      exactly the functions that have such a line        *)
(* A mismatch here is reported as EXTENDED-SPEC-MISMATCH, never as a       *)
(* violation of a listed property.                                         *)
(***************************************************************************)
EXTENDS Naturals, Sequences, FiniteSets, TLC, SequencesExt, Json, IOUtils

Recs == ndJsonDeserialize(IOEnv.TRACE_FILE)
N == Len(Recs)
VARIABLES i
vars == <<i>>
Init == i = 1

ToS(s) == {s[j] : j \in 1..Len(s)}
StartsWith(p, x) == Len(p) <= Len(x) /\ SubSeq(x, 1, Len(p)) = p
Min2(a, b) == IF a < b THEN a ELSE b

RECURSIVE SumCounts(_)
SumCounts(s) == IF Len(s) = 0 THEN 0 ELSE s[1].count + SumCounts(Tail(s))

\* rows: [id, mod, fn (code points), ok]   (id keeps rows that differ only in their types apart)
Viol(r) ==
  IF r.cmd = "list-modules"
  THEN (IF r.rc # 0 THEN {"ExitZero"} ELSE {})
       \cup (IF ToS(r.out_modules) # {x.mod : x \in ToS(r.rows)} \/ Len(r.out_modules) # Cardinality(ToS(r.out_modules))
             THEN {"ModulesListed"} ELSE {})
  ELSE LET match == {x \in ToS(r.rows) : x.mod = r.m /\ (r.noprefix \/ StartsWith(r.prefix, x.fn))}
           good  == {x \in match : x.ok}
           total == SumCounts(r.counts)
       IN   (IF r.rc # 0 THEN {"ExitZero"} ELSE {})
       \cup (IF total > Min2(r.limit, Cardinality(match)) THEN {"LimitRespected"} ELSE {})
       \cup (IF r.limit >= Cardinality(match) /\ total # Cardinality(good) THEN {"SampleCountsSum"} ELSE {})
       \cup (IF \E j \in 1..Len(r.counts) : ~(\E x \in good : x.fn = r.counts[j].fn) THEN {"OnlyMatchingFunctions"} ELSE {})
       \cup (IF r.limit >= Cardinality(match) /\ {c.fn : c \in ToS(r.counts)} # {x.fn : x \in good} THEN {"EveryFunctionCounted"} ELSE {})
       \cup (IF ToS(r.stub_funcs) # {c.fn : c \in ToS(r.counts)} THEN {"StubMatchesCounts"} ELSE {})

Step == /\ i <= N
        /\ LET v == Viol(Recs[i]) IN
           v # {} => PrintT(<<"V", ToJson([tid |-> Recs[i].tid, viol |-> v, drift |-> FALSE])>>)
        /\ i' = i + 1
Done == /\ i = N + 1 /\ PrintT(<<"DONE", ToJson([n |-> N])>>) /\ i' = N + 2
Next == Step \/ Done
Spec == Init /\ [][Next]_vars
=============================================================================
