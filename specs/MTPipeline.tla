------------------------------ MODULE MTPipeline ------------------------------
(***************************************************************************)
(* C01 at the level of the model: run -> store -> stub for ONE position,   *)
(* as the composition of the transcribed stages                            *)
(*     per-call get_type (MTInfer)  ->  rows, deduplicated (a SET of       *)
(*     types)  ->  shrink_types over the stored types (MTInfer.Shrink)  -> *)
(*     the configured rewriter chain (MTRewrite.RWChain).                  *)
(* EndToEndSound: the type that reaches the renderer admits every value    *)
(* that was observed at that position.                                     *)
(***************************************************************************)
EXTENDS MTInfer, MTRewrite, MTUniverse

CONSTANTS Ks, MaxCalls, Chains

VARIABLES k, chain, calls, stored, ann
pvars == <<k, chain, calls, stored, ann>>

UP == AtomsSmall \cup Containers(AtomsSmall, Hashable(AtomsSmall), KeysStd, 1)

PInit == /\ k \in Ks /\ chain \in Chains /\ calls = {} /\ stored = {} /\ ann = {TAny}

\* one traced call with value v at this position: its type is stored; the stub annotation is recomputed
CallWith(v) == /\ Cardinality(calls) < MaxCalls /\ v \notin calls
               /\ calls' = calls \cup {v}
               /\ stored' = stored \cup {GetType(v, k)}
               /\ ann' = RWChain(chain, Shrink(stored', k))
               /\ UNCHANGED <<k, chain>>
PNext == \E v \in UP : CallWith(v)
PSpec == PInit /\ [][PNext]_pvars

EndToEndSound == calls # {} => \A t \in ann : ~IsErr(t) /\ \A v \in calls : Member(v, t)
=============================================================================
