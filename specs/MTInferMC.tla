----------------------------- MODULE MTInferMC -----------------------------
(***************************************************************************)
(* Model checking  I => P  for type inference: the machine Observe(v) over *)
(* a finite value universe; after every step the type is what the          *)
(* transcribed implementation (MTInfer) computes for the values seen, and  *)
(* every P-clause (MTInferP) is an invariant.                              *)
(***************************************************************************)
EXTENDS MTInfer, MTInferP, MTUniverse

CONSTANTS Ks,        \* TypedDict size limits explored
          MaxObs,    \* history length bound
          UName      \* which universe

VARIABLES k, seen, ty
vars == <<k, seen, ty>>

U == CASE UName = "small1" -> AtomsSmall \cup Containers(AtomsSmall, Hashable(AtomsSmall), KeysStd, 2)
       [] UName = "mid1"   -> AtomsMid \cup Containers(AtomsSmall, Hashable(AtomsSmall), KeysStd, 2)
       [] UName = "tiny2"  -> LET A0 == {VAtom("int"), VStr("a")}
                                  L1 == A0 \cup ContainersOf({"list", "dict", "tuple"}, A0, A0, {VStr("a"), VStr("b")}, 2)
                              IN  L1 \cup ContainersOf({"list", "dict", "tuple", "ddict"}, L1, A0, {VStr("a"), VStr("b")}, 1)

Init == k \in Ks /\ seen = {} /\ ty = TAny

Observe(v) == /\ Cardinality(seen) < MaxObs
              /\ v \notin seen
              /\ seen' = seen \cup {v}
              /\ ty' = Infer(seen', k)
              /\ UNCHANGED k

Next == \E v \in U : Observe(v)
Spec == Init /\ [][Next]_vars

Inv_Sound   == seen # {} => Sound(seen, ty)
Inv_Tight   == seen # {} => Tight(seen, ty)
Inv_TDBound == TDBound(ty, k)
\* the inferred type is in normal form (no nested unions): a property of the transcription
Inv_Normal  == Norm(ty) = ty
=============================================================================
