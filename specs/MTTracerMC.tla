----------------------------- MODULE MTTracerMC -----------------------------
(* Model-checking wrapper for MTTracer: function table, bounds, VIEW, path export. *)
EXTENDS MTTracer, Json

CONSTANTS MaxDepth

FuncsMC  == {"F", "U", "G", "C"}
KindMC   == [f \in FuncsMC |-> CASE f = "G" -> "gen" [] f = "C" -> "coro" [] OTHER -> "plain"]
WantedMC == [f \in FuncsMC |-> f # "U"]
ValsMC   == {"int", "none"}
\* a narrower alphabet for deeper exhaustive path enumeration around generators (throw / drop / resume)
FuncsGF  == {"F", "G"}
KindGF   == [f \in FuncsGF |-> IF f = "G" THEN "gen" ELSE "plain"]
WantedGF == [f \in FuncsGF |-> TRUE]
ValsGF   == {"int"}
\* async generators: all five kinds for simulation, {plain function, async generator} for exhaustive paths
FuncsAll  == {"F", "U", "G", "C", "A"}
KindAll   == [f \in FuncsAll |-> CASE f = "G" -> "gen" [] f = "C" -> "coro" [] f = "A" -> "agen" [] OTHER -> "plain"]
WantedAll == [f \in FuncsAll |-> f # "U"]
ValsAll   == {"int", "none"}
FuncsAF  == {"F", "A"}
KindAF   == [f \in FuncsAF |-> IF f = "A" THEN "agen" ELSE "plain"]
WantedAF == [f \in FuncsAF |-> TRUE]
ValsAF   == {"int"}

DepthOK == TLCGet("level") <= MaxDepth
View == <<fr, stack, truth, traces, skipped, logged>>

\* path export: one JSON behaviour per maximal path (hist is part of the state, no VIEW)
Emit == (TLCGet("level") = MaxDepth + 1 \/ ~ENABLED Next) =>
           PrintT(<<"H", ToJson([hist |-> hist,
                                 pred |-> [logged |-> ProjSeq(Judged(logged)), truth |-> ProjSeq(truth),
                                           resid |-> Cardinality({t \in traces : fr[t.id].st = "done"})]])>>)
=============================================================================
