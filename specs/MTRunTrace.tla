------------------------------ MODULE MTRunTrace ------------------------------
(***************************************************************************)
(* Trace specification for MTRun: one ndjson line per real execution of    *)
(* `monkeytype run` (in process, through cli.main):                        *)
(*  {tid, calls:[f...], ending, user:[f...], seen_argv_ok, seen_prof_ok,   *)
(*   argv_restored, prof_restored, stored:[f...], result}                  *)
(* calls / ending are the behaviour TLC generated from MTRun; the rest is  *)
(* what was observed.  The expected end state is computed with MTRun's own *)
(* definitions.                                                            *)
(***************************************************************************)
EXTENDS Naturals, Sequences, FiniteSets, TLC, Json, IOUtils

Recs == ndJsonDeserialize(IOEnv.TRACE_FILE)
N == Len(Recs)
VARIABLE i
vars == <<i>>
Init == i = 1

S(s) == {s[j] : j \in 1..Len(s)}

Viol(r) ==
  LET user == S(r.user)
      expected == S(r.calls) \cap user
  IN    (IF ~r.seen_argv_ok THEN {"ScriptSeesItsArgv"} ELSE {})
   \cup (IF ~r.seen_prof_ok THEN {"ScriptIsTraced"} ELSE {})
   \cup (IF ~r.argv_restored THEN {"ArgvRestored"} ELSE {})
   \cup (IF ~r.prof_restored THEN {"ProfilerRestored"} ELSE {})
   \cup (IF \E f \in S(r.stored) : f \notin user THEN {"NothingOfMain"} ELSE {})
   \cup (IF S(r.stored) \cap user # expected THEN {"FlushedWhateverTheEnding"} ELSE {})
   \cup (IF r.result # r.ending THEN {"EndingPropagates"} ELSE {})

Step == /\ i <= N
        /\ LET v == Viol(Recs[i]) IN
           v # {} => PrintT(<<"V", ToJson([tid |-> Recs[i].tid, viol |-> v, drift |-> FALSE])>>)
        /\ i' = i + 1
Done == /\ i = N + 1 /\ PrintT(<<"DONE", ToJson([n |-> N])>>) /\ i' = N + 2
Next == Step \/ Done
Spec == Init /\ [][Next]_vars
=============================================================================
