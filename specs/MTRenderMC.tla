----------------------------- MODULE MTRenderMC -----------------------------
(***************************************************************************)
(* Model checking the naming rules: signatures are sets of <= MaxSig       *)
(* classes of the collision universe (the fixture modules of C11: a module *)
(* and a package module ending with its name, a package next to its own    *)
(* submodule, nested classes, a class named like its module, ...), grown   *)
(* one class at a time; SelfContained and DenotesSame are invariants.      *)
(* With the deviations off and a universe without two classes of one       *)
(* outermost name this is the DESIGN; with Dev_LastImportWins as the code  *)
(* is, TLC marks the signatures in which the model predicts a violation,   *)
(* and every signature is exported for replay (Emit).                      *)
(***************************************************************************)
EXTENDS MTRender, Json

CONSTANTS MaxSig, UName

C(m, q) == [m |-> m, q |-> q]
OwnT == <<"own">>
ModOrderT == <<<<"_zledger">>, <<"barzfoo">>, <<"mtfx", "lookalikes">>, <<"own">>, <<"zfoo">>, <<"zfoo_v2">>, <<"zmytyping">>, <<"zpkg">>,
              <<"zpkg", "zutil">>, <<"zutil">>>>
Universe == {C(<<"zutil">>, <<"A">>), C(<<"zutil">>, <<"zutil">>), C(<<"zutil">>, <<"Outer", "Inner">>), C(<<"zpkg", "zutil">>, <<"B">>),
             C(<<"zpkg", "zutil">>, <<"A">>), C(<<"zfoo">>, <<"Baz">>), C(<<"barzfoo">>, <<"Qux">>), C(<<"zfoo_v2">>, <<"W">>),
             C(<<"zpkg">>, <<"PkgTop">>), C(<<"zmytyping">>, <<"Foo">>), C(<<"_zledger">>, <<"Account">>),
             C(<<"own">>, <<"Own">>), C(<<"own">>, <<"Outer", "Inner">>),
             \* a class named like ANOTHER top-level module, with a class inside: zpkg.zfoo.K
             C(<<"zpkg">>, <<"zfoo", "K">>)}
\* the design's universe: no two classes with one outermost name from different modules
Distinct == {c \in Universe : ~(\E d \in Universe : d # c /\ d.q[1] = c.q[1] /\ d.m # c.m /\ Later(c.m, d.m))}
U == IF UName = "distinct" THEN Distinct ELSE Universe

VARIABLES sig
vars == <<sig>>
Init == sig = {}
Add(c) == /\ Cardinality(sig) < MaxSig /\ c \notin sig /\ sig' = sig \cup {c}
Next == \E c \in U : Add(c)
Spec == Init /\ [][Next]_vars

Inv_SelfContained == \A ord \in StripOrders(sig) : SelfContainedFor(sig, ord)
Inv_DenotesSame   == \A ord \in StripOrders(sig) : DenotesSameFor(sig, ord)

\* predicted verdicts: in every stripping order the code may take (sc, ds) and in at least one (sc1, ds1) - they differ
\* exactly when the outcome depends on the order in which the signature mentions equally long module names
Pred == [sc  |-> \A ord \in StripOrders(sig) : SelfContainedFor(sig, ord), ds  |-> \A ord \in StripOrders(sig) : DenotesSameFor(sig, ord),
         sc1 |-> \E ord \in StripOrders(sig) : SelfContainedFor(sig, ord), ds1 |-> \E ord \in StripOrders(sig) : DenotesSameFor(sig, ord)]
Emit == Cardinality(sig) >= 2 => PrintT(<<"H", ToJson([sig |-> {[m |-> c.m, q |-> c.q] : c \in sig}, pred |-> Pred])>>)
=============================================================================
