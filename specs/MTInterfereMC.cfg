SPECIFICATION Spec
CONSTANTS
  MaxCalls = 3
  Dev_FlushEscapes = FALSE
INVARIANT Contained
INVARIANT Restored
INVARIANT FlushedOnce
INVARIANT SameOutcome
CHECK_DEADLOCK FALSE
