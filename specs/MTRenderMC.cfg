SPECIFICATION Spec
CONSTANTS
  Own <- OwnT
  ModOrder <- ModOrderT
  MaxSig = 3
  UName = "distinct"
  Dev_StripAnyOrder = FALSE
  Dev_LastImportWins = FALSE
  Dev_ChainedStrip = FALSE
INVARIANT Inv_SelfContained
INVARIANT Inv_DenotesSame
CHECK_DEADLOCK FALSE
