SPECIFICATION Spec
CONSTANTS
  MaxChain = 2
  UName = "both"
  Dev_RECAnyNeighbour = FALSE
  Dev_RLUEmptyTupleFirst = FALSE
  Dev_RLUFirstMro = FALSE
  Dev_MSCBGeneric = FALSE
INVARIANT Inv_NoCrash
INVARIANT Inv_NeverNarrows
INVARIANT Inv_OnlyOnTrigger
CHECK_DEADLOCK FALSE
