---------------------------- MODULE MTDecodeKinds ----------------------------
(* What each kind of stored row does to the decoder (see MTDecode, MTCodec). *)
Outcome(kind) ==
  CASE kind \in {"valid", "valid2", "renamed_param"} -> "ok"
    [] kind \in {"module_removed", "function_removed", "arg_class_removed", "return_class_removed", "yield_class_removed",
                 "class_module_removed", "local_scope", "class_module_removed_ret", "arg_class_removed_2",
                 "arg_module_removed_name_prefix", "elem_class_removed",
                 \* classes whose __module__ is builtins although builtins does not export them (dict_keys, module)
                 "ret_unexported_builtin", "arg_unexported_builtin",
                 \* a removed class that occurs only as the type of one FIELD of a stored TypedDict
                 "td_field_class_removed"} -> "NameLookupError"
    [] kind \in {"now_nonfunction", "now_class", "now_settable_property", "class_now_nontype", "class_now_nontype_ret",
                 "dunder_removed", "dunder_removed_2", "now_builtin", "now_bound_builtin",
                 "elem_class_now_nontype", "elem_class_now_nontype_ret",
                 \* names that still resolve to something function-like which has no place in a stub
                 "now_closure", "prop_getter_nonfunction", "nowraps",
                 \* a function kept under a new name whose OWN qualified name no longer resolves; a proxy that answers every attribute
                 "alias_of_removed", "now_proxy"} -> "InvalidTypeError"
    \* the name is now imported from another module: the row decodes - to a function of THAT module, whose stub it belongs to
    [] kind = "moved_function" -> "ok_elsewhere"
    [] OTHER -> "ok"
DecodableKind(kind) == Outcome(kind) \in {"ok", "ok_elsewhere"}
\* decodes AND contributes to the stub of the module asked for
HereKind(kind) == Outcome(kind) = "ok"

=============================================================================
