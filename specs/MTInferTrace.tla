---------------------------- MODULE MTInferTrace ----------------------------
(***************************************************************************)
(* Batch validation of recorded inference observations against the         *)
(* P-layer (MTInferP).  One ndjson line per collection of values:          *)
(*   {tid, k, k1, vals: [Value...], runs: [{ty, err: "NONE"|class}...]}    *)
(* runs = what the real get_type/shrink_types returned for different       *)
(* orders and multiplicities of the same values.  Trace actions are TOTAL: *)
(* a bad observation never disables a step, it adds the names of the       *)
(* falsified clauses to viol.  drift = differs from the I-layer (MTInfer). *)
(***************************************************************************)
EXTENDS MTInfer, MTInferP, Json, IOUtils

Recs == ndJsonDeserialize(IOEnv.TRACE_FILE)
N == Len(Recs)

VARIABLES i, r, viol, drift
vars == <<i, r, viol, drift>>

Init == i = 1 /\ r = 0 /\ viol = {} /\ drift = FALSE

Vals(rec) == {J2T(rec.vals[j]) : j \in 1..Len(rec.vals)}

RunStep ==
  /\ i <= N /\ r < Len(Recs[i].runs)
  /\ LET rec  == Recs[i]
         run  == rec.runs[r + 1]
         vals == Vals(rec)
         err  == run.err # "NONE"
         ty   == IF err THEN TAbsent ELSE J2T(run.ty)
         ty1  == IF rec.runs[1].err # "NONE" THEN TAbsent ELSE J2T(rec.runs[1].ty)
     IN /\ viol' = viol \cup InferViol(vals, rec.k, ty, err)
                        \cup (IF ty # ty1 THEN {"OrderFree"} ELSE {})
        \* k1 = the limit under which the per-value types were collected (tracing time), k = the limit
        \* under which they are merged (stub time); usually the same
        /\ drift' = (drift \/ (~err /\ ty # Shrink({GetType(v, rec.k1) : v \in vals}, rec.k)))
  /\ r' = r + 1 /\ UNCHANGED i

EndTrace ==
  /\ i <= N /\ r = Len(Recs[i].runs)
  /\ (viol # {} \/ drift) =>
        PrintT(<<"V", ToJson([tid |-> Recs[i].tid, viol |-> viol, drift |-> drift])>>)
  /\ i' = i + 1 /\ r' = 0 /\ viol' = {} /\ drift' = FALSE

Done == /\ i = N + 1
        /\ PrintT(<<"DONE", ToJson([n |-> N])>>)
        /\ i' = N + 2 /\ UNCHANGED <<r, viol, drift>>

Next == RunStep \/ EndTrace \/ Done
Spec == Init /\ [][Next]_vars
=============================================================================
