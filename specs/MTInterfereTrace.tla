-------------------------- MODULE MTInterfereTrace --------------------------
(***************************************************************************)
(* P-layer for C03 as a trace specification.  One ndjson line per          *)
(* scenario: the same workload run untraced and traced.                    *)
(*  {tid, hooks:[{role, proto, inside}...]  journal of user hooks that     *)
(*        fired during the TRACED run; inside = a monkeytype frame was on  *)
(*        the stack                                                        *)
(*   obsU:[...], obsT:[...]   program-visible observations (results,       *)
(*        exceptions, output, hooks fired by the program itself) of the    *)
(*        untraced and the traced run                                      *)
(*   prevOK, flushes, escaped}                                             *)
(***************************************************************************)
EXTENDS Naturals, Sequences, FiniteSets, TLC, Json, IOUtils

Recs == ndJsonDeserialize(IOEnv.TRACE_FILE)
N == Len(Recs)

VARIABLES i
vars == <<i>>
Init == i = 1

Viol(r) ==
       (IF \E j \in 1..Len(r.hooks) : r.hooks[j].inside THEN {"NoUserCode"} ELSE {})
  \cup (IF r.obsU # r.obsT THEN {"SameBehaviour"} ELSE {})
  \cup (IF r.escaped # "NONE" THEN {"Contained"} ELSE {})
  \cup (IF ~r.prevOK THEN {"Restored"} ELSE {})
  \cup (IF r.flushes # 1 THEN {"FlushedOnce"} ELSE {})

Step == /\ i <= N
        /\ LET v == Viol(Recs[i]) IN
           v # {} => PrintT(<<"V", ToJson([tid |-> Recs[i].tid, viol |-> v, drift |-> FALSE])>>)
        /\ i' = i + 1
Done == /\ i = N + 1 /\ PrintT(<<"DONE", ToJson([n |-> N])>>) /\ i' = N + 2
Next == Step \/ Done
Spec == Init /\ [][Next]_vars
=============================================================================
