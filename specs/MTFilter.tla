------------------------------- MODULE MTFilter -------------------------------
(***************************************************************************)
(* C17(a): the default code filter as path arithmetic.                     *)
(* A path is a sequence of components; symlinks are resolved by the        *)
(* projection (os.path.realpath) before the spec sees it.                  *)
(*                                                                         *)
(* P-layer (Expected): a code object is admitted iff its file name is real *)
(* (not empty, not synthetic like <string> / <frozen ...>) and             *)
(*   - no allow-list: its resolved path is under no library root;          *)
(*   - allow-list:    some listed name is a dotted component of the module *)
(*                    the code belongs to, wherever it is installed.       *)
(* I-layer (Code): config.default_code_filter transcribed: with an         *)
(* allow-list it strips the first matching library root and tests          *)
(*   m == stem(last component)  or  m in the remaining path components.    *)
(***************************************************************************)
EXTENDS Naturals, Sequences, FiniteSets, TLC, SequencesExt

IsPrefixOf(p, s) == Len(p) <= Len(s) /\ SubSeq(s, 1, Len(p)) = p
UnderSomeRoot(path, roots) == \E i \in 1..Len(roots) : IsPrefixOf(roots[i], path)

\* rec = [kind, resolved, roots, module (Seq of components), allow (Seq of names), allowset (BOOLEAN), stem]
Expected(r) ==
  /\ r.kind = "real"
  /\ IF ~r.allowset THEN ~UnderSomeRoot(r.resolved, r.roots)
     ELSE \E i \in 1..Len(r.allow) : \E j \in 1..Len(r.module) : r.allow[i] = r.module[j]

FirstRoot(r) == IF UnderSomeRoot(r.resolved, r.roots)
                THEN r.roots[CHOOSE i \in 1..Len(r.roots) : IsPrefixOf(r.roots[i], r.resolved)
                                                             /\ \A h \in 1..(i - 1) : ~IsPrefixOf(r.roots[h], r.resolved)]
                ELSE <<>>
Code(r) ==
  /\ r.kind = "real"
  /\ IF ~r.allowset THEN ~UnderSomeRoot(r.resolved, r.roots)
     ELSE LET rel == SubSeq(r.resolved, Len(FirstRoot(r)) + 1, Len(r.resolved))
              parts == IF FirstRoot(r) = <<>> THEN <<"/">> \o rel ELSE rel    \* an absolute path keeps its anchor
          IN  \E i \in 1..Len(r.allow) : r.allow[i] = r.stem \/ \E j \in 1..Len(parts) : parts[j] = r.allow[i]
=============================================================================
