------------------------------ MODULE MTTracer ------------------------------
(***************************************************************************)
(* The traced program, what CPython 3.12 delivers to a profile function,   *)
(* and monkeytype/tracing.py CallTracer - one operator per branch of       *)
(* CallTracer.__call__ / handle_call / handle_return.                      *)
(*                                                                         *)
(* PROGRAM (environment).  Frames fr[1..n]; stack = the Python frames of   *)
(* fixture functions now executing (top = running).  The running frame     *)
(* (or the driver when the stack is empty) may: call a function, create    *)
(* and resume generators / coroutines, yield, suspend on an await, return  *)
(* (an expression, a constant, implicitly), raise, rebind its parameter,   *)
(* throw into a suspended generator.  An exception unwinds every frame     *)
(* whose caller did not catch it.                                          *)
(*                                                                         *)
(* INTERPRETER.  call event on first entry AND on every resume; return     *)
(* event on yield / await-suspend (last opcode YIELD_VALUE), on return     *)
(* (RETURN_VALUE for `return <expr>`, RETURN_CONST for `return <const>`    *)
(* and for falling off the end), on unwinding (some other opcode, arg      *)
(* None), and - when an exception is thrown into a suspended generator     *)
(* that does not handle it - a call event followed by a return event whose *)
(* last opcode is still YIELD_VALUE and whose arg is None.                 *)
(*                                                                         *)
(* Values are tokens; the "type" of a token is the token (get_type is      *)
(* specified separately in MTInfer).                                       *)
(*                                                                         *)
(* Dev_* = deviations of the code from the documented behaviour (C02/C18). *)
(***************************************************************************)
EXTENDS Naturals, Sequences, FiniteSets, TLC, SequencesExt

CONSTANTS Funcs,          \* function names
          Kind,           \* f -> "plain" | "gen" | "coro" | "agen"  (agen = async generator: it both yields and awaits)
          Wanted,         \* f -> BOOLEAN: admitted by the code filter and resolvable by get_func
          Vals,           \* value tokens
          MaxFrames,      \* bound on the number of frames ever created
          Rate,           \* sampling rate (0 = unset)
          AllowThrow,     \* extended alphabet: throw() into a suspended generator
          AllowDrop,      \* extended alphabet: a suspended generator is abandoned (close() / garbage collection)
          AllowDelegate,  \* extended alphabet: `yield from <generator>` / `await <coroutine>` of another traced frame
          Dev_ReturnConst,   \* handle_return does not recognise RETURN_CONST: return type stays absent
          Dev_AwaitIsYield,  \* a coroutine suspending on an await is recorded as a yield of what the awaitable yielded
          Dev_ThrowIsYield,  \* an exception thrown into a suspended generator is recorded as `yield None`; never logged; residue
          Dev_Resample,      \* the sampling draw is repeated on every call event (every resume), not once per call
          Dev_AgenWrapped    \* async generators: a yield is seen as its interpreter-internal wrapper object, an await as `yield None`

ABSENT == "ABSENT"
NoneTok == "none"
WrapTok == "agwrap"      \* the type of CPython's async_generator_wrapped_value

VARIABLES fr,       \* Seq of [f, st, entry, cur, ys, dg, dc]    st \in {"new","run","susp","done","dropped"}
                    \* dg = the frame this one delegates to (`yield from` / `await`), 0 if none; dc = does the
                    \* delegating frame catch an exception leaving the delegate
          stack,    \* Seq of [id, catch]  catch = the caller/resumer catches an exception leaving this frame
          truth,    \* Seq of completed calls of wanted functions [id, f, arg, ys, ret]
          traces,   \* tracer: set of [id, f, arg, ys, ret] in flight  (CallTracer.traces, keyed by frame)
          skipped,  \* tracer (design only): frames whose single sampling draw said "skip"
          logged,   \* Seq of [id, f, arg, ys, ret] handed to CallTraceLogger.log
          hist      \* history of program actions (for replay into the real code)
vars == <<fr, stack, truth, traces, skipped, logged, hist>>

Top == stack[Len(stack)].id
Running == Len(stack) > 0
TraceOf(id) == CHOOSE t \in traces : t.id = id
HasTrace(id) == \E t \in traces : t.id = id

Init == /\ fr = <<>> /\ stack = <<>> /\ truth = <<>> /\ traces = {} /\ skipped = {}
        /\ logged = <<>> /\ hist = <<>>

(***************************************************************************)
(* The tracer callback, as functions from tracer state to tracer state.    *)
(* st = [traces, skipped, logged];  draw = 0 means "trace this call".      *)
(***************************************************************************)
TS(t, s, l) == [traces |-> t, skipped |-> s, logged |-> l]

\* CallTracer.__call__(frame, "call", None) -> handle_call
OnCall(st, id, f, curval, first, draw) ==
  IF ~Wanted[f] THEN st                                   \* code filter / get_func found nothing
  ELSE IF Rate > 1 /\ (Dev_Resample \/ first) /\ draw # 0   \* random.randrange(rate) != 0
       THEN TS(st.traces, IF first THEN st.skipped \cup {id} ELSE st.skipped, st.logged)
  ELSE IF Rate > 1 /\ ~Dev_Resample /\ ~first /\ id \in st.skipped THEN st
  ELSE IF \E t \in st.traces : t.id = id THEN st            \* resuming a generator: frame already seen
  ELSE TS(st.traces \cup {[id |-> id, f |-> f, arg |-> curval, ys |-> {}, ret |-> ABSENT]},
          st.skipped, st.logged)

\* CallTracer.__call__(frame, "return", arg) -> handle_return;  op = last executed opcode
OnReturn(st, id, f, op, v) ==
  IF ~Wanted[f] \/ ~(\E t \in st.traces : t.id = id) THEN st
  ELSE LET t == CHOOSE x \in st.traces : x.id = id IN
       IF op = "YIELD_VALUE"
       THEN TS((st.traces \ {t}) \cup {[t EXCEPT !.ys = @ \cup {v}]}, st.skipped, st.logged)
       ELSE LET t2 == IF op = "RETURN_VALUE" \/ (op = "RETURN_CONST" /\ ~Dev_ReturnConst)
                      THEN [t EXCEPT !.ret = v] ELSE t
            IN  TS(st.traces \ {t}, st.skipped, Append(st.logged, t2))

Cur == TS(traces, skipped, logged)
Commit(st) == traces' = st.traces /\ skipped' = st.skipped /\ logged' = st.logged

Draws == IF Rate > 1 THEN {0, 1} ELSE {0}

Completed(id, ret) == [id |-> id, f |-> fr[id].f, arg |-> fr[id].entry, ys |-> fr[id].ys, ret |-> ret]
AddTruth(tr, id, ret) == IF Wanted[fr[id].f] THEN Append(tr, Completed(id, ret)) ELSE tr

CanAct == IF Running THEN fr[Top].st = "run" ELSE TRUE

(***************************************************************************)
(* Delegation chains.  A generator running `yield from g` (a coroutine     *)
(* running `await c`) is suspended and resumed TOGETHER with g: CPython    *)
(* delivers one return event per frame of the chain, innermost first, when *)
(* the innermost frame yields / suspends, and one call event per frame,    *)
(* outermost first, when the outermost frame is resumed.  A value yielded  *)
(* by the delegate is a value yielded by every frame of the chain.         *)
(***************************************************************************)
Live(id) == fr[id].st \in {"run", "susp"}
LiveChild(p) == IF fr[p].dg # 0 /\ Live(fr[p].dg) THEN fr[p].dg ELSE 0
IsLiveChild(id) == \E p \in 1..Len(fr) : Live(p) /\ fr[p].dg = id /\ Live(id)
InChain(id) == LiveChild(id) # 0 \/ IsLiveChild(id)
\* how many entries at the top of the stack form one delegation chain (>= 1 when running)
RECURSIVE ChainLen(_)
ChainLen(n) == IF n >= 2 /\ fr[stack[n - 1].id].dg = stack[n].id THEN 1 + ChainLen(n - 1) ELSE 1
\* ids of the chain hanging below a suspended root, outermost first
RECURSIVE ChainOf(_)
ChainOf(id) == IF LiveChild(id) = 0 THEN <<id>> ELSE <<id>> \o ChainOf(LiveChild(id))
\* the tracer callback applied to a sequence of frames
RECURSIVE OnReturnAll(_, _, _, _)
OnReturnAll(st, ids, op, v) == IF Len(ids) = 0 THEN st
                               ELSE OnReturnAll(OnReturn(st, ids[1], fr[ids[1]].f, op, v), Tail(ids), op, v)
RECURSIVE OnCallAll(_, _, _)
OnCallAll(st, ids, draw) == IF Len(ids) = 0 THEN st
                            ELSE OnCallAll(OnCall(st, ids[1], fr[ids[1]].f, fr[ids[1]].cur, fr[ids[1]].st = "new", draw),
                                           Tail(ids), draw)
\* the chain at the top of the stack, innermost first
TopChain == LET c == ChainLen(Len(stack)) IN [j \in 1..c |-> stack[Len(stack) - j + 1].id]

(***************************************************************************)
(* Program actions                                                         *)
(***************************************************************************)
\* the running frame (or the driver) calls f(v); for a generator / coroutine function this only
\* creates the object (no frame runs, no event)
Call(f, v, catch, draw) ==
  /\ CanAct /\ Len(fr) < MaxFrames
  /\ LET id == Len(fr) + 1 IN
     IF Kind[f] = "plain"
     THEN /\ fr' = Append(fr, [f |-> f, st |-> "run", entry |-> v, cur |-> v, ys |-> {}, dg |-> 0, dc |-> TRUE])
          /\ stack' = Append(stack, [id |-> id, catch |-> catch])
          /\ Commit(OnCall(Cur, id, f, v, TRUE, draw))
          /\ hist' = Append(hist, [op |-> "Call", f |-> f, id |-> id, v |-> v, catch |-> catch, draw |-> draw, ch |-> <<id>>])
     ELSE /\ draw = 0 /\ catch
          /\ fr' = Append(fr, [f |-> f, st |-> "new", entry |-> v, cur |-> v, ys |-> {}, dg |-> 0, dc |-> TRUE])
          /\ UNCHANGED <<stack, traces, skipped, logged>>
          /\ hist' = Append(hist, [op |-> "Create", f |-> f, id |-> id, v |-> v, catch |-> TRUE, draw |-> 0, ch |-> <<>>])
  /\ UNCHANGED truth

\* next(g) / coro.send(None) on a created or suspended frame: a call event every time - and one for every
\* frame of the delegation chain hanging below it, outermost first (all with the action's draw)
Resume(id, catch, draw) ==
  /\ CanAct /\ id \in 1..Len(fr) /\ fr[id].st \in {"new", "susp"}
  /\ ~IsLiveChild(id)                              \* a delegate is driven through its delegator
  /\ (Kind[fr[id].f] \in {"coro", "agen"} => ~Running)        \* coroutines and async generators are driven by the driver
  /\ LET ch == ChainOf(id) IN
     /\ fr' = [j \in 1..Len(fr) |-> IF j \in ToSet(ch) THEN [fr[j] EXCEPT !.st = "run"] ELSE fr[j]]
     /\ stack' = stack \o [j \in 1..Len(ch) |-> [id |-> ch[j], catch |-> IF j = 1 THEN catch ELSE fr[ch[j]].dc]]
     /\ Commit(OnCallAll(Cur, ch, draw))
     /\ hist' = Append(hist, [op |-> "Resume", f |-> fr[id].f, id |-> id, v |-> NoneTok, catch |-> catch, draw |-> draw, ch |-> ch])
  /\ UNCHANGED truth

\* extended alphabet: the running generator starts `yield from g` on a created generator (a coroutine: `await c`
\* on a created coroutine); the delegate's first entry is a call event of its own
Delegate(id, catch, draw) ==
  /\ AllowDelegate /\ Running /\ fr[Top].st = "run" /\ Kind[fr[Top].f] \in {"gen", "coro"} /\ LiveChild(Top) = 0
  /\ id \in 1..Len(fr) /\ fr[id].st = "new" /\ Kind[fr[id].f] = Kind[fr[Top].f]
  /\ fr' = [fr EXCEPT ![id].st = "run", ![id].dc = catch, ![Top].dg = id]
  /\ stack' = Append(stack, [id |-> id, catch |-> catch])
  /\ Commit(OnCall(Cur, id, fr[id].f, fr[id].cur, TRUE, draw))
  /\ hist' = Append(hist, [op |-> "Delegate", f |-> fr[id].f, id |-> id, v |-> NoneTok, catch |-> catch, draw |-> draw, ch |-> <<id>>])
  /\ UNCHANGED truth

\* the running generator yields v: every frame of the chain it ends is suspended and has yielded v
Yield(v) ==
  /\ Running /\ fr[Top].st = "run" /\ Kind[fr[Top].f] \in {"gen", "agen"}
  /\ LET ch == TopChain IN
     /\ fr' = [j \in 1..Len(fr) |-> IF j \in ToSet(ch) THEN [fr[j] EXCEPT !.st = "susp", !.ys = @ \cup {v}] ELSE fr[j]]
     /\ stack' = SubSeq(stack, 1, Len(stack) - Len(ch))
     \* (an async generator hands the interpreter a wrapper around the value)
     /\ Commit(OnReturnAll(Cur, ch, "YIELD_VALUE", IF Kind[fr[Top].f] = "agen" /\ Dev_AgenWrapped THEN WrapTok ELSE v))
     /\ hist' = Append(hist, [op |-> "Yield", f |-> fr[Top].f, id |-> Top, v |-> v, catch |-> TRUE, draw |-> 0, ch |-> ch])
  /\ UNCHANGED truth

\* a coroutine really suspends on an awaitable (which yields None to the driver); not a yield.  Every coroutine
\* of the await chain is suspended with it.
AwaitSuspend ==
  /\ Running /\ fr[Top].st = "run" /\ Kind[fr[Top].f] \in {"coro", "agen"}
  /\ LET ch == TopChain IN
     /\ fr' = [j \in 1..Len(fr) |-> IF j \in ToSet(ch) THEN [fr[j] EXCEPT !.st = "susp"] ELSE fr[j]]
     /\ stack' = SubSeq(stack, 1, Len(stack) - Len(ch))
     /\ Commit(IF Dev_AwaitIsYield \/ (Kind[fr[Top].f] = "agen" /\ Dev_AgenWrapped)
               THEN OnReturnAll(Cur, ch, "YIELD_VALUE", NoneTok) ELSE Cur)
     /\ hist' = Append(hist, [op |-> "Await", f |-> fr[Top].f, id |-> Top, v |-> NoneTok, catch |-> TRUE, draw |-> 0, ch |-> ch])
  /\ UNCHANGED truth

\* how \in {"expr", "const", "implicit"}: `return v` / `return <literal>` / falling off the end
RetVal(how, v) == IF how = "implicit" THEN NoneTok ELSE v
Return(how, v) ==
  /\ Running /\ fr[Top].st = "run"
  /\ (how = "implicit" => v = NoneTok)
  /\ (how = "const" => v = "int")               \* the fixtures' literal is `return 1`
  /\ (Kind[fr[Top].f] = "agen" => how = "implicit")   \* an async generator cannot return a value
  /\ fr' = [fr EXCEPT ![Top].st = "done"]
  /\ stack' = SubSeq(stack, 1, Len(stack) - 1)
  /\ truth' = AddTruth(truth, Top, RetVal(how, v))
  /\ Commit(OnReturn(Cur, Top, fr[Top].f, IF how = "expr" THEN "RETURN_VALUE" ELSE "RETURN_CONST", RetVal(how, v)))
  /\ hist' = Append(hist, [op |-> "Return", f |-> how, id |-> Top, v |-> RetVal(how, v), catch |-> TRUE, draw |-> 0, ch |-> <<>>])

\* the running frame raises; every frame up to the first catching caller unwinds (one return event each)
RECURSIVE Unwind(_, _, _, _)
Unwind(stk, frs, tr, st) ==   \* returns [stack, fr, truth, ts]
  IF Len(stk) = 0 THEN [stack |-> stk, fr |-> frs, truth |-> tr, ts |-> st]
  ELSE LET e   == stk[Len(stk)]
           id  == e.id
           rec == [id |-> id, f |-> frs[id].f, arg |-> frs[id].entry, ys |-> frs[id].ys, ret |-> ABSENT]
           tr2 == IF Wanted[frs[id].f] THEN Append(tr, rec) ELSE tr
           st2 == OnReturn(st, id, frs[id].f, "OTHER", NoneTok)
           frs2 == [frs EXCEPT ![id].st = "done"]
           rest == SubSeq(stk, 1, Len(stk) - 1)
       IN  IF e.catch THEN [stack |-> rest, fr |-> frs2, truth |-> tr2, ts |-> st2]
           ELSE Unwind(rest, frs2, tr2, st2)

Raise ==
  /\ Running /\ fr[Top].st = "run"
  /\ LET r == Unwind(stack, fr, truth, Cur) IN
     /\ stack' = r.stack /\ fr' = r.fr /\ truth' = r.truth /\ Commit(r.ts)
  /\ hist' = Append(hist, [op |-> "Raise", f |-> fr[Top].f, id |-> Top, v |-> NoneTok, catch |-> TRUE, draw |-> 0, ch |-> <<>>])

\* the body rebinds its parameter (only interesting for frames that will be resumed)
Rebind(v) ==
  /\ Running /\ fr[Top].st = "run" /\ Kind[fr[Top].f] \in {"gen", "coro", "agen"} /\ fr[Top].cur # v
  /\ fr' = [fr EXCEPT ![Top].cur = v]
  /\ hist' = Append(hist, [op |-> "Rebind", f |-> fr[Top].f, id |-> Top, v |-> v, catch |-> TRUE, draw |-> 0, ch |-> <<>>])
  /\ UNCHANGED <<stack, truth, traces, skipped, logged>>

\* extended alphabet: g.throw(exc) into a suspended generator that does not handle it; the
\* thrower catches.  The generator finishes by raising.
Throw(id, draw) ==
  /\ AllowThrow /\ CanAct /\ id \in 1..Len(fr) /\ ~InChain(id)
  /\ \/ fr[id].st = "susp" /\ Kind[fr[id].f] = "gen"
     \* ... or into a generator / coroutine that was created but never started: the call is entered and left by the exception
     \* at once (call event, then a return event whose last opcode is RETURN_GENERATOR and whose arg is None)
     \/ fr[id].st = "new" /\ Kind[fr[id].f] \in {"gen", "coro"}
  /\ fr' = [fr EXCEPT ![id].st = "done"]
  /\ truth' = AddTruth(truth, id, ABSENT)
  /\ LET s1 == OnCall(Cur, id, fr[id].f, fr[id].cur, fr[id].st = "new", draw)
         s2 == IF Dev_ThrowIsYield /\ fr[id].st = "susp" THEN OnReturn(s1, id, fr[id].f, "YIELD_VALUE", NoneTok)
               ELSE OnReturn(s1, id, fr[id].f, "OTHER", NoneTok)
     IN Commit(s2)
  /\ hist' = Append(hist, [op |-> "Throw", f |-> fr[id].f, id |-> id, v |-> NoneTok, catch |-> TRUE, draw |-> draw, ch |-> <<id>>])
  /\ UNCHANGED stack

\* extended alphabet: the program drops its last reference to a suspended generator; close() throws
\* GeneratorExit into it (same event delivery as Throw).  The statement of C02 does not say whether such a
\* call "finished": it carries NO verdict (neither truth nor the invariants mention it) - but every other
\* call must still be traced faithfully afterwards.
Drop(id, draw) ==
  /\ AllowDrop /\ CanAct /\ id \in 1..Len(fr) /\ fr[id].st = "susp" /\ Kind[fr[id].f] = "gen" /\ ~InChain(id)
  /\ fr' = [fr EXCEPT ![id].st = "dropped"]
  /\ LET s1 == OnCall(Cur, id, fr[id].f, fr[id].cur, FALSE, draw)
         s2 == IF Dev_ThrowIsYield THEN OnReturn(s1, id, fr[id].f, "YIELD_VALUE", NoneTok)
               ELSE OnReturn(s1, id, fr[id].f, "OTHER", NoneTok)
     IN Commit(s2)
  /\ hist' = Append(hist, [op |-> "Drop", f |-> fr[id].f, id |-> id, v |-> NoneTok, catch |-> TRUE, draw |-> draw, ch |-> <<id>>])
  /\ UNCHANGED <<stack, truth>>

Next ==
  \/ \E id \in 1..Len(fr), d \in Draws : Drop(id, d)
  \/ \E f \in Funcs, v \in Vals, c \in BOOLEAN, d \in Draws : Call(f, v, c, d)
  \/ \E id \in 1..Len(fr), c \in BOOLEAN, d \in Draws : Resume(id, c, d)
  \/ \E id \in 1..Len(fr), c \in BOOLEAN, d \in Draws : Delegate(id, c, d)
  \/ \E v \in Vals : Yield(v)
  \/ AwaitSuspend
  \/ \E how \in {"expr", "const", "implicit"}, v \in Vals : Return(how, v)
  \/ Raise
  \/ \E v \in Vals : Rebind(v)
  \/ \E id \in 1..Len(fr), d \in Draws : Throw(id, d)

Spec == Init /\ [][Next]_vars

(***************************************************************************)
(* The properties (C02, C18) as invariants of the composed system.         *)
(***************************************************************************)
Proj(r) == [f |-> r.f, arg |-> r.arg, ys |-> r.ys, ret |-> r.ret]
ProjSeq(s) == [i \in 1..Len(s) |-> Proj(s[i])]

RECURSIVE IsSubSeq(_, _)
IsSubSeq(s, t) == IF Len(s) = 0 THEN TRUE
                  ELSE IF Len(t) = 0 THEN FALSE
                  ELSE IF s[1] = t[1] THEN IsSubSeq(Tail(s), Tail(t))
                  ELSE IsSubSeq(s, Tail(t))

\* abandoned generators carry no verdict: what the tracer logged for them is left out
Judged(s) == SelectSeq(s, LAMBDA r : fr[r.id].st # "dropped")
\* C02: exactly once, attributed, in completion order, faithful (when every call is sampled)
ExactlyOnceInOrder == Rate <= 1 => ProjSeq(Judged(logged)) = ProjSeq(truth)
\* C18: what is logged is a sub-sequence of the truth, each trace exactly as without sampling
SampledSubset == IsSubSeq(ProjSeq(Judged(logged)), ProjSeq(truth))
\* C02/C18: no per-call state is kept for a finished frame
NoResidue == \A t \in traces : fr[t.id].st # "done"
=============================================================================
