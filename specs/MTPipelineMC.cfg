SPECIFICATION PSpec
CONSTANTS
  Ks = {0, 2}
  MaxCalls = 2
  Chains <- ChainsMC
  Dev_RECAnyNeighbour = FALSE
  Dev_RLUEmptyTupleFirst = FALSE
  Dev_RLUFirstMro = TRUE
  Dev_MSCBGeneric = FALSE
INVARIANT EndToEndSound
CHECK_DEADLOCK FALSE
