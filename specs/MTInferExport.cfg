INIT Init
NEXT Next
