------------------------------ MODULE MTApplyMC ------------------------------
(***************************************************************************)
(* I => P for the import-confinement step over a small universe of source  *)
(* and stub import sets: the "source import resembles a stub import"       *)
(* relation in all its forms (same module / different name, same name with *)
(* an alias, plain `import m` next to `from m import X`, inside a          *)
(* function, inside an existing TYPE_CHECKING block).                      *)
(* Dev_RemoveByModule = TRUE is the code (RemoveImportsTransformer);       *)
(* FALSE is the design: only the moved items themselves leave the top.     *)
(***************************************************************************)
EXTENDS MTApply

Item(k, m, n, a, b) == [kind |-> k, module |-> m, name |-> n, alias |-> a, block |-> b, runtime |-> FALSE]
SrcPool == {Item("import", "shapes", "", "", "top"), Item("from", "shapes", "Circle", "C", "top"),
            Item("from", "shapes", "Square", "", "top"), Item("from", "shapes", "Circle", "", "func"),
            Item("from", "other", "X", "", "tc"), Item("import", "shapes", "", "sh", "func")}
StubPool == {[module |-> "shapes", name |-> "Circle"], [module |-> "shapes", name |-> "Square"],
             [module |-> "typing", name |-> "List"], [module |-> "other", name |-> "X"]}

VARIABLES srcI, stubI, resI, done
vars == <<srcI, stubI, resI, done>>
Init == srcI \in SUBSET SrcPool /\ stubI \in SUBSET StubPool /\ resI = {} /\ done = FALSE

Confine ==
  /\ ~done /\ done' = TRUE
  /\ LET moved == Moved(stubI, srcI)
         del   == DeletedFromSource(stubI, srcI)
     IN resI' = (srcI \ del) \cup {Item("from", m.module, m.name, "", "tc") : m \in moved}
  /\ UNCHANGED <<srcI, stubI>>
Spec == Init /\ [][Confine]_vars

Inv_ExistingUnmoved == done => ExistingUnmoved(srcI, resI)
Inv_ConfinedOnly    == done => ConfinedOnly(srcI, resI)
=============================================================================
