--------------------------- MODULE MTRewriteExport ---------------------------
(* Exports type universes (see MTInferExport for why: free machine).  UNAME, OUT_FILE. *)
EXTENDS MTTypeUniverse, Json, IOUtils

UName == IOEnv.UNAME

L1s == TAtomsSmall \cup Cont(TAtomsSmall)
L1m == TAtomsMid \cup Cont(TAtomsMid)
L1f == TAtomsFull \cup Cont(TAtomsFull)

U == CASE UName = "t1small" -> L1s \cup Pairs(L1s)
       [] UName = "t1mid"   -> L1m \cup Pairs(L1m)
       [] UName = "t1full"  -> L1f \cup Pairs(L1f)
       [] UName = "t3small" -> L1s \cup KUnions(L1s, 3)
       [] UName = "deep"    -> BigUnions(DeepPool, 2, 5)
       [] UName = "big"     -> BigUnions(ClassPool, 3, 8) \cup BigUnions(TuplePool, 3, 8) \cup BigUnions(SubclassPool, 3, 7)
                               \cup BigUnions(MixedPool, 3, 4) \cup KUnions(MixedPool, 6)
       [] UName = "wrap2"   -> Wrap(Pairs(L1s)) \cup Wrap(KUnions(MixedPool, 3)) \cup Wrap(BigUnions(TuplePool, 6, 6))
                               \cup Wrap(BigUnions(ClassPool, 6, 6))
       [] UName = "wrap3"   -> Wrap(Wrap(Pairs(TAtomsSmall \cup {TList(TAny), TList(TCls("int")), TDict(TAny, TAny),
                                                                  TDict(TCls("str"), TCls("int")), TTuple(<<>>)})))
       \* C11: classes spread over modules whose names are dotted / textual suffixes of one another
       [] UName = "ctx1"    -> CtxAtoms \cup Cont(CtxAtoms) \cup Pairs(CtxAtoms)
                               \cup {TTuple(<<x, y>>) : x \in CtxAtoms, y \in CtxAtoms}
                               \cup {TDict(x, y) : x \in CtxUser, y \in CtxUser}
                               \cup {TList(t) : t \in Pairs(CtxUser)} \cup {TTupleVar(x) : x \in CtxUser}
                               \cup {TDDict(TCls("str"), TList(x)) : x \in CtxUser}
                               \cup {MkUnion({x, y, TNone}) : x \in CtxUser, y \in CtxUser}
       [] UName = "ctxtd"   -> LET TD0 == {TTD({TReq("a", x)}) : x \in CtxUser \cup {TCls("int")}}
                                          \cup {TTD({TReq("a", TCls("int")), TOpt("b", x)}) : x \in CtxUser}
                                          \cup {TTD({TOpt("b", TCls("int"))}), TTD({TReq("a", TTD({TReq("x", TCls("int"))}))}),
                                                TTD({TReq("a", TList(TTD({TReq("x", TCls("str"))})))})}
                               IN  TD0 \cup Wrap(TD0) \cup {TDict(TCls("str"), t) : t \in TD0} \cup {TDDict(TCls("str"), t) : t \in TD0}
                                   \cup {TTuple(<<t, u>>) : t \in TD0, u \in {TTD({TReq("a", TCls("int"))}), TTD({TReq("c", TCls("str"))})}}
                                   \cup {TTypeOf(TCls("zutil.A")), TIterator(TAny), TCallable}
                                   \cup {MkUnion({t, TNone}) : t \in TD0} \cup {TList(MkUnion({t, TCls("int")})) : t \in TD0}
       [] UName = "tds"     -> TDPool \cup Pairs(TDPool \cup TAtomsSmall) \cup Wrap(TDPool) \cup Wrap(Pairs(TDPool))

ASSUME JsonSerialize(IOEnv.OUT_FILE, SetToSeq(U))
ASSUME PrintT(<<"USIZE", Cardinality(U)>>)

VARIABLE x
Init == x = 0
Next == x' = x
=============================================================================
