------------------------------ MODULE MTRender ------------------------------
(***************************************************************************)
(* The naming rules of a module stub (monkeytype/stubs.py: ImportMap,      *)
(* get_imports_for_annotation, FunctionStub.render / AttributeStub.render) *)
(* as operators over dotted names.  A name is a SEQUENCE OF COMPONENTS     *)
(* (<<"zpkg", "zutil">>), so "prefix" means a prefix of components - the   *)
(* textual accidents of the original code (substring replacement) are not  *)
(* representable here; they were found, and repaired, on the text level    *)
(* (DESIGN 12.5).                                                          *)
(*                                                                         *)
(* A signature mentions a set S of classes, each [m |-> module, q |->      *)
(* qualified name].  The stub                                              *)
(*   - imports, for every class of another module, its OUTERMOST name:     *)
(*     `from m import q[1]`;                                               *)
(*   - writes every class as m.q and then strips the imported module       *)
(*     prefixes, one module after the other;                               *)
(*   - is read back by resolving the first component of what is left.      *)
(* I-layer operators: Imports, Strip, Written.  P-layer: SelfContained,    *)
(* DenotesSame (C11).                                                      *)
(***************************************************************************)
EXTENDS Naturals, Sequences, FiniteSets, TLC, SequencesExt

CONSTANTS Own,                 \* the module the stub is for (its own classes need no import)
          ModOrder,            \* all module names in the order in which an import block lists them (sorted text)
          Dev_ChainedStrip,    \* what one prefix strip leaves is stripped again by the next one (as the code was; repaired: one pass)
          Dev_StripAnyOrder,   \* prefixes are stripped in an arbitrary order (repaired: longest first)
          Dev_LastImportWins   \* two imports binding one name: the later `from m import n` silently rebinds it (recorded finding)

IsPrefixOf(p, s) == Len(p) <= Len(s) /\ SubSeq(s, 1, Len(p)) = p
DropPrefix(p, s) == SubSeq(s, Len(p) + 1, Len(s))

Foreign(S) == {c \in S : c.m # Own}
\* the import block: (module, outermost name) pairs
Imports(S) == {[m |-> c.m, n |-> c.q[1]] : c \in Foreign(S)}
Modules(S) == {c.m : c \in S}       \* the stub's own module is stripped like the imported ones

\* strip the modules of `ord` from the written name t.  Chained (deviation): one module after the other, each working on
\* what the previous one left.  One pass (the design): the first module of `ord` that is a prefix is removed, nothing else.
Strippable(m, t) == IsPrefixOf(m, t) /\ Len(t) > Len(m)
RECURSIVE StripChained(_, _)
StripChained(ord, t) == IF Len(ord) = 0 THEN t
                        ELSE StripChained(Tail(ord), IF Strippable(Head(ord), t) THEN DropPrefix(Head(ord), t) ELSE t)
RECURSIVE StripOnce(_, _)
StripOnce(ord, t) == IF Len(ord) = 0 THEN t
                     ELSE IF Strippable(Head(ord), t) THEN DropPrefix(Head(ord), t) ELSE StripOnce(Tail(ord), t)
StripSeq(ord, t) == IF Dev_ChainedStrip THEN StripChained(ord, t) ELSE StripOnce(ord, t)

\* the orders in which the code may strip: longest module first (ties cannot both apply), or - deviation - any order
LongestFirst(ord) == \A i, j \in 1..Len(ord) : i < j => Len(ord[i]) >= Len(ord[j])
Perms(M) == SetToSeqs(M)
StripOrders(S) == IF Dev_StripAnyOrder THEN Perms(Modules(S)) ELSE {ord \in Perms(Modules(S)) : LongestFirst(ord)}

\* what the stub writes for class c of signature S under stripping order ord
Written(c, S, ord) == StripSeq(ord, c.m \o c.q)

\* the order of the import block (sorted module text); the LAST `from m import n` of a name is the one in force
Rank(m) == CHOOSE i \in 1..Len(ModOrder) : ModOrder[i] = m
Later(a, b) == Rank(a) > Rank(b)

\* reading the stub back: what does the first component of a written name denote?
Binders(n, S) == {i.m : i \in {x \in Imports(S) : x.n = n}}
\* the module that provides name n ("none" if nothing does; "ambiguous" if two imports bind it and the design forbids that)
Provider(n, S, ownNames) ==
  IF n \in ownNames THEN Own
  ELSE IF Binders(n, S) = {} THEN <<"?none">>
  ELSE IF Cardinality(Binders(n, S)) = 1 THEN CHOOSE m \in Binders(n, S) : TRUE
  ELSE IF Dev_LastImportWins THEN CHOOSE m \in Binders(n, S) : \A m2 \in Binders(n, S) : m2 = m \/ Later(m, m2)
  ELSE <<"?ambiguous">>

Resolve(w, S, ownNames) == [m |-> Provider(w[1], S, ownNames), q |-> w]

(***************************************************************************)
(* P-layer (C11)                                                           *)
(***************************************************************************)
OwnNames(S) == {c.q[1] : c \in {x \in S : x.m = Own}}
SelfContainedFor(S, ord) == \A c \in S : Provider(Written(c, S, ord)[1], S, OwnNames(S))[1] \notin {"?none", "?ambiguous"}
\* (a name that does not resolve at all is SelfContained's business, not DenotesSame's)
Resolves(c, S, ord)      == Provider(Written(c, S, ord)[1], S, OwnNames(S))[1] \notin {"?none", "?ambiguous"}
DenotesSameFor(S, ord)   == \A c \in S : Resolves(c, S, ord) => Provider(Written(c, S, ord)[1], S, OwnNames(S)) \o Written(c, S, ord) = c.m \o c.q
=============================================================================
