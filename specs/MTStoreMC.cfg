SPECIFICATION Spec
CONSTANTS
  Conn <- ConnMC
  Rows <- RowsMC
  RowMod <- RowModMC
  RowQn <- RowQnMC
  Batches <- BatchesMC
  Mods <- ModsMC
  QPrefixes <- QPrefixesMC
  Limits <- LimitsMC
  MaxDepth = 7
  Dev_Like = FALSE
CONSTRAINT DepthOK
VIEW View
INVARIANT Atomic
INVARIANT FilterExact
INVARIANT ModulesExact
PROPERTY Durable
CHECK_DEADLOCK FALSE
