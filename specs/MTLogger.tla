------------------------------- MODULE MTLogger -------------------------------
(***************************************************************************)
(* Specification growth beyond the listed properties: the logger that sits *)
(* between the tracer and the store (monkeytype/db/base.py,                *)
(* CallTraceStoreLogger), with several loggers feeding one store (nested   *)
(* or successive `monkeytype.trace()` blocks, several processes).          *)
(*                                                                         *)
(*   log(t):   if t.func.__module__ != "__main__": traces.append(t)        *)
(*   flush():  store.add(traces); traces = []                              *)
(*                                                                         *)
(* `store.add` either commits the whole buffer or raises (C09: atomic);    *)
(* when it raises, the assignment `traces = []` is not reached, so the     *)
(* buffer is kept and goes out again with the next flush.  An empty        *)
(* buffer needs no write lock: flushing it succeeds even while the store   *)
(* is locked (found by replaying the first version of this model).         *)
(*                                                                         *)
(* State: buf[l] the buffer of logger l (a sequence: duplicates are kept   *)
(* until the store deduplicates), store = set of distinct rows, avail =    *)
(* the store can be written (FALSE while another connection holds the      *)
(* write lock), logged = everything ever passed to log().                  *)
(***************************************************************************)
EXTENDS Naturals, Sequences, FiniteSets

CONSTANTS NLoggers,      \* loggers are 1..NLoggers
          Traces,        \* trace ids (small naturals)
          MainTraces,    \* the ones whose function lives in __main__
          MaxBuf         \* bound on a buffer's length (model checking only)

VARIABLES buf, store, avail, logged, hist
vars == <<buf, store, avail, logged, hist>>

Loggers == 1..NLoggers
\* @type: Seq(Int) => Set(Int);
RangeOf(s) == {s[j] : j \in DOMAIN s}

\* ---- effects, shared with the trace specification --------------------------------------
LogEff(b, t) == IF t \in MainTraces THEN b ELSE Append(b, t)
FlushOkStore(s, b) == s \cup RangeOf(b)
CanWrite(a, b) == a \/ b = <<>>          \* add([]) writes nothing

Init == /\ buf = [l \in Loggers |-> <<>>] /\ store = {} /\ avail = TRUE /\ logged = {} /\ hist = <<>>

H(op, l, t, ok) == hist' = Append(hist, [op |-> op, l |-> l, t |-> t, ok |-> ok])

Log(l, t) == /\ Len(buf[l]) < MaxBuf
             /\ buf' = [buf EXCEPT ![l] = LogEff(@, t)]
             /\ logged' = logged \cup {t}
             /\ H("Log", l, t, TRUE)
             /\ UNCHANGED <<store, avail>>

Flush(l) == IF CanWrite(avail, buf[l])
            THEN /\ store' = FlushOkStore(store, buf[l])
                 /\ buf' = [buf EXCEPT ![l] = <<>>]
                 /\ H("Flush", l, 0, TRUE)
                 /\ UNCHANGED <<avail, logged>>
            ELSE /\ H("Flush", l, 0, FALSE)          \* add() raises: nothing changes
                 /\ UNCHANGED <<buf, store, avail, logged>>

Lock   == avail /\ avail' = FALSE /\ H("Lock", 0, 0, TRUE) /\ UNCHANGED <<buf, store, logged>>
Unlock == ~avail /\ avail' = TRUE /\ H("Unlock", 0, 0, TRUE) /\ UNCHANGED <<buf, store, logged>>

Next == \/ \E l \in Loggers, t \in Traces : Log(l, t)
        \/ \E l \in Loggers : Flush(l)
        \/ Lock \/ Unlock
Spec == Init /\ [][Next]_vars

\* ---- properties -------------------------------------------------------------------------
\* nothing that was logged outside __main__ is ever lost: it is in the store or still buffered
NoLoss == \A t \in logged \ MainTraces : t \in store \/ \E l \in Loggers : t \in RangeOf(buf[l])
\* __main__ never reaches a buffer or the store
MainNeverKept == \A t \in MainTraces : t \notin store /\ \A l \in Loggers : t \notin RangeOf(buf[l])
\* the store holds nothing that was not logged
OnlyLogged == store \subseteq logged
\* what is buffered was logged (needed to make the conjunction inductive: found by Apalache, see MC_MTLoggerApa)
BufferedWasLogged == \A l \in Loggers : RangeOf(buf[l]) \subseteq logged
\* a flush either empties the buffer into the store or changes nothing
FlushAllOrNothing ==
  [][\A l \in Loggers :
       (hist' # hist /\ hist'[Len(hist')].op = "Flush" /\ hist'[Len(hist')].l = l) =>
          IF hist'[Len(hist')].ok
          THEN buf'[l] = <<>> /\ store' = store \cup RangeOf(buf[l])
          ELSE buf' = buf /\ store' = store]_vars
\* the store only grows
StoreMonotone == [][store \subseteq store']_vars
=============================================================================
