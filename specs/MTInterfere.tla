----------------------------- MODULE MTInterfere -----------------------------
(***************************************************************************)
(* C03, lifecycle part: the `with trace_calls(...)` block as a transition  *)
(* system with faults.  tracing.py:                                        *)
(*     old = sys.getprofile(); sys.setprofile(CallTracer(...))             *)
(*     try: yield                                                          *)
(*     finally: sys.setprofile(old); logger.flush()                        *)
(* and CallTracer.__call__ wraps handle_call / handle_return in            *)
(* try/except Exception.  Faults: the logger's log() raises, its flush()   *)
(* raises, inspecting a value raises.  The block ends normally or by an    *)
(* exception of the program.  The program may itself install or remove a  *)
(* profiler inside the block (sys.setprofile): from then on the tracer    *)
(* sees nothing, and on exit the profiler of BEFORE the block must still  *)
(* be put back.                                                           *)
(* The context manager is an OBJECT: it is created (trace_calls(...))      *)
(* and entered (with cm:) in two steps, and the program may change the     *)
(* profiler in between; "the previously installed profiler" is the one in  *)
(* place when the block is ENTERED.                                        *)
(***************************************************************************)
EXTENDS Naturals, Sequences, FiniteSets, TLC

CONSTANTS MaxCalls,
          Dev_FlushEscapes,   \* an exception raised by logger.flush() in the finally clause reaches the program
          Dev_PrevAtCreation  \* the profiler to put back is read when the context manager is created, not when it is entered

VARIABLES phase,     \* "before" | "created" | "inside" | "after"
          prev,      \* profiler installed when the block was entered: "none" | "other"
          captured,  \* (I-layer) the profiler the context manager will put back; "unset" until it reads it
          cur,       \* profiler installed now: "none" | "other" | "tracer" | "prog" (one the program installed itself)
          calls,     \* Seq of per-call fault: "ok" | "log" | "inspect"
          flushFails,\* BOOLEAN: flush() will raise
          flushes,   \* times flush() was called
          logged,    \* number of traces that reached log() and were kept by it
          escaped,   \* set of fault kinds whose exception reached the program
          progExc,   \* the program's own exception leaving the block ("none" | "prog")
          seen,      \* exception the code around the block finally sees ("none" | "prog" | "flush")
          hist
vars == <<phase, prev, captured, cur, calls, flushFails, flushes, logged, escaped, progExc, seen, hist>>

Init == /\ phase = "before" /\ prev \in {"none", "other"} /\ cur = prev /\ captured = "unset" /\ calls = <<>>
        /\ flushFails \in BOOLEAN /\ flushes = 0 /\ logged = 0 /\ escaped = {}
        /\ progExc = "none" /\ seen = "none" /\ hist = <<>>

\* cm = trace_calls(...): nothing is installed yet
Create == /\ phase = "before" /\ phase' = "created"
          /\ captured' = IF Dev_PrevAtCreation THEN cur ELSE captured
          /\ hist' = Append(hist, [op |-> "Create", x |-> cur])
          /\ UNCHANGED <<prev, cur, calls, flushFails, flushes, logged, escaped, progExc, seen>>
\* between creation and entry the program installs or removes a profiler (at most once: enough to tell the two readings apart)
SetBefore(x) == /\ phase = "created" /\ x # cur
                /\ ~\E i \in 1..Len(hist) : hist[i].op = "SetBefore"
                /\ cur' = x
                /\ hist' = Append(hist, [op |-> "SetBefore", x |-> x])
                /\ UNCHANGED <<phase, prev, captured, calls, flushFails, flushes, logged, escaped, progExc, seen>>
Enter == /\ phase = "created" /\ phase' = "inside" /\ cur' = "tracer"
         /\ prev' = cur
         /\ captured' = IF Dev_PrevAtCreation THEN captured ELSE cur
         /\ hist' = Append(hist, [op |-> "Enter", x |-> cur])
         /\ UNCHANGED <<calls, flushFails, flushes, logged, escaped, progExc, seen>>

\* the program replaces the profiler inside the block: sys.setprofile(None) or a profiler of its own
ProgSetsProfiler(x) == /\ phase = "inside" /\ cur = "tracer"
                       /\ cur' = x
                       /\ hist' = Append(hist, [op |-> "SetProfile", x |-> x])
                       /\ UNCHANGED <<phase, prev, captured, calls, flushFails, flushes, logged, escaped, progExc, seen>>

\* one traced call completes; fault = what goes wrong inside the tracer callback for it
CallF(fault) == /\ phase = "inside" /\ Len(calls) < MaxCalls
                /\ (cur = "tracer" \/ fault = "ok")          \* no tracer callback, no fault
                /\ calls' = Append(calls, fault)
                \* try/except Exception in CallTracer.__call__: neither fault reaches the program
                /\ logged' = IF fault = "ok" /\ cur = "tracer" THEN logged + 1 ELSE logged
                /\ hist' = Append(hist, [op |-> "Call", x |-> fault])
                /\ UNCHANGED <<phase, prev, captured, cur, flushFails, flushes, escaped, progExc, seen>>

Exit(how) == /\ phase = "inside" /\ phase' = "after"
             \* "sysexit": the program leaves by a BaseException that is not an Exception (SystemExit)
             /\ progExc' = IF how = "normal" THEN "none" ELSE "prog"
             /\ cur' = captured                  \* sys.setprofile(old_trace) comes first
             /\ flushes' = flushes + 1
             /\ IF flushFails /\ Dev_FlushEscapes
                THEN escaped' = escaped \cup {"flush"} /\ seen' = "flush"      \* replaces the program's own exception
                ELSE escaped' = escaped /\ seen' = progExc'
             /\ hist' = Append(hist, [op |-> "Exit", x |-> how])
             /\ UNCHANGED <<prev, captured, calls, flushFails, logged>>

Next == Create \/ (\E x \in {"none", "other"} : SetBefore(x)) \/ Enter \/ (\E f \in {"ok", "log", "inspect"} : CallF(f)) \/ (\E x \in {"none", "prog"} : ProgSetsProfiler(x)) \/ (\E h \in {"normal", "exception", "sysexit"} : Exit(h))
Spec == Init /\ [][Next]_vars

\* C03
Contained   == escaped = {}
Restored    == phase = "after" => cur = prev
FlushedOnce == phase = "after" => flushes = 1
SameOutcome == phase = "after" => seen = progExc      \* the program sees its own exception or none
=============================================================================
