------------------------------ MODULE MTInferP ------------------------------
(***************************************************************************)
(* P-layer of type inference: the properties C04, C05, C06 and nothing     *)
(* else.  An "observation" is a set of runtime values, a TypedDict size    *)
(* limit k and the type some implementation inferred for them.             *)
(***************************************************************************)
EXTENDS MTValues

\* C04: every observed value is a member of the inferred type
Sound(vals, ty)    == \A v \in vals : Member(v, ty)
\* C05: the inferred type admits nothing that was not seen
Tight(vals, ty)    == Wit(ty, vals, FALSE)
\* C06: limit honoured at every nesting position; zero disables TypedDicts
TDBound(ty, k)     == IF k = 0 THEN AllTDs(ty) = {} ELSE TDBoundOK(ty, k)

InferClauses == {"Sound", "Tight", "TDBound", "NoError", "OrderFree"}

\* names of the clauses an observation falsifies (err = the implementation raised)
InferViol(vals, k, ty, err) ==
  IF err THEN {"NoError"}
  ELSE   (IF Sound(vals, ty) THEN {} ELSE {"Sound"})
    \cup (IF Tight(vals, ty) THEN {} ELSE {"Tight"})
    \cup (IF TDBound(ty, k)  THEN {} ELSE {"TDBound"})
    \* C06: only dicts whose keys are all strings become TypedDicts (and an empty dict never does)
    \cup (IF AllTDs(ty) # {} /\ ~(\E v \in vals : HoldsRecord(v)) THEN {"TDOnlyFromRecords"} ELSE {})
=============================================================================
