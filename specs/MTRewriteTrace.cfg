SPECIFICATION Spec
CONSTANTS
  Dev_RECAnyNeighbour = TRUE
  Dev_RLUEmptyTupleFirst = TRUE
  Dev_RLUFirstMro = TRUE
  Dev_MSCBGeneric = TRUE
CHECK_DEADLOCK FALSE
