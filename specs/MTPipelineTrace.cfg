SPECIFICATION Spec
CONSTANTS
  Dev_EllipsisEncode = TRUE
CHECK_DEADLOCK FALSE
