------------------------------ MODULE MTStoreTxn ------------------------------
(***************************************************************************)
(* The transactional core of MTStore (see there): which batches are on     *)
(* disk, which add() is in flight on which connection, who holds the write *)
(* lock, which processes are alive and which left a hot journal.  MTStore  *)
(* instantiates this module and adds the observations (filter results,     *)
(* module listing) and the history; keeping the core separate lets the     *)
(* same actions be checked by TLC (bounded) and by Apalache (inductive     *)
(* invariant, MC_MTStoreTxnApa).                                           *)
(***************************************************************************)
EXTENDS Naturals, FiniteSets

CONSTANTS
  \* @type: Set(Str);
  Conn,
  \* @type: Set(Str);
  BatchIds,
  \* @type: Str -> Int;
  BatchSize

None == "none"
\* @type: { b: Str, cur: Int };
NoTxn == [b |-> "none", cur |-> 0]

VARIABLES
  \* @type: Set(Str);
  disk,
  \* @type: Str -> { b: Str, cur: Int };
  txn,
  \* @type: Str -> Bool;
  alive,
  \* @type: Str;
  lock,
  \* @type: Str -> Str;
  journal

tvars == <<disk, txn, alive, lock, journal>>

TInit == /\ disk = {} /\ txn = [c \in Conn |-> NoTxn] /\ alive = [c \in Conn |-> TRUE]
         /\ lock = None /\ journal = [c \in Conn |-> None]

\* add(batch): BEGIN, the first INSERT takes the write lock
TBegin(c, b) == /\ alive[c] /\ txn[c] = NoTxn /\ lock = None /\ b \notin disk
                /\ \A c2 \in Conn : txn[c2] = NoTxn \/ txn[c2].b # b
                /\ txn' = [txn EXCEPT ![c] = [b |-> b, cur |-> 0]]
                /\ lock' = c
                /\ UNCHANGED <<disk, alive, journal>>
\* the lock is held by another writer: add() raises, nothing is written
TBusy(c) ==     /\ alive[c] /\ txn[c] = NoTxn /\ lock # None /\ lock # c
                /\ UNCHANGED tvars
TInsertRow(c) == /\ alive[c] /\ txn[c] # NoTxn /\ txn[c].cur < BatchSize[txn[c].b]
                 /\ txn' = [txn EXCEPT ![c] = [b |-> txn[c].b, cur |-> txn[c].cur + 1]]
                 /\ UNCHANGED <<disk, alive, lock, journal>>
TCommit(c) ==   /\ alive[c] /\ txn[c] # NoTxn
                /\ disk' = disk \cup {txn[c].b}
                /\ txn' = [txn EXCEPT ![c] = NoTxn] /\ lock' = None
                /\ UNCHANGED <<alive, journal>>
TAbort(c) ==    /\ alive[c] /\ txn[c] # NoTxn
                /\ txn' = [txn EXCEPT ![c] = NoTxn] /\ lock' = None
                /\ UNCHANGED <<disk, alive, journal>>
TCrash(c) ==    /\ alive[c] /\ txn[c] # NoTxn
                /\ alive' = [alive EXCEPT ![c] = FALSE]
                /\ journal' = [journal EXCEPT ![c] = txn[c].b]
                /\ txn' = [txn EXCEPT ![c] = NoTxn] /\ lock' = None
                /\ UNCHANGED disk
TReopen(c) ==   /\ ~alive[c]
                /\ alive' = [alive EXCEPT ![c] = TRUE] /\ journal' = [journal EXCEPT ![c] = None]
                /\ UNCHANGED <<disk, txn, lock>>

TNext == \/ \E c \in Conn, b \in BatchIds : TBegin(c, b)
         \/ \E c \in Conn : TBusy(c) \/ TInsertRow(c) \/ TCommit(c) \/ TAbort(c) \/ TCrash(c) \/ TReopen(c)

(***************************************************************************)
(* Properties of the core                                                  *)
(***************************************************************************)
\* a batch in flight is not on disk (so a reader never sees part of it)
TAtomic == \A c \in Conn : txn[c] # NoTxn => txn[c].b \notin disk
\* the write lock is held exactly by the connection with a transaction in flight
LockDiscipline == /\ \A c \in Conn : (txn[c] # NoTxn) <=> (lock = c)
                  /\ (lock = None \/ lock \in Conn)
\* at most one transaction in flight
OneWriter == \A c1, c2 \in Conn : (txn[c1] # NoTxn /\ txn[c2] # NoTxn) => c1 = c2
\* a dead process has no transaction; a hot journal belongs to a dead process and its batch is not on disk
\* unless another connection committed the same batch afterwards - so only: never more rows than the batch has
WithinBatch == \A c \in Conn : txn[c] # NoTxn => (txn[c].b \in BatchIds /\ txn[c].cur <= BatchSize[txn[c].b])
DeadHasNoTxn == \A c \in Conn : ~alive[c] => txn[c] = NoTxn
JournalOnlyWhenDead == \A c \in Conn : journal[c] # None => ~alive[c]

TTypeOK == /\ disk \subseteq BatchIds
           /\ DOMAIN txn = Conn /\ DOMAIN alive = Conn /\ DOMAIN journal = Conn
           /\ \A c \in Conn : txn[c] = NoTxn \/ (txn[c].b \in BatchIds /\ txn[c].cur >= 0)
           /\ \A c \in Conn : journal[c] = None \/ journal[c] \in BatchIds

TIndInv == TTypeOK /\ TAtomic /\ LockDiscipline /\ OneWriter /\ WithinBatch /\ DeadHasNoTxn /\ JournalOnlyWhenDead
=============================================================================
