#!/venv/bin/python
"""tools/eval_seeded.py <srcroot> <outfile.jsonl> [--benign] [--tier quick|thorough] [--only Cxx/n ...] [--checks C01,C02]

Evaluate a batch of sub-agent changes that live under <srcroot>/<group>/<n>/{patch.diff, demo.py, notes.md}
(group = a property id for seeded defects, an area name for property-preserving "benign" changes).

For every change, in ONE scratch worktree of /repo's HEAD (outside /repo and /verif, removed at the end):
  1. unmodified tree: the repository's tests pass (minus the baseline's always-failing test), demo exits 0
  2. with the patch: tests still pass, demo exits non-zero            (seeded defects only)
  3. VERIF_REPO=<worktree> ./check <id> for the change's own property (seeded) or for EVERY property (benign)
One JSON line per change is appended to <outfile.jsonl>; nothing is written under /verif.
"""
import json
import os
import subprocess
import sys
import tempfile

PY = "/venv/bin/python"
TEST = [PY, "-m", "pytest", "-q", "-p", "no:cacheprovider", "-x", "tests", "demo", "--deselect",
        "tests/test_config.py::TestDefaultCodeFilter::test_excludes_site_packages"]
ALL = ["C%02d" % i for i in range(1, 19)]
VERIF = os.path.dirname(os.path.dirname(os.path.abspath(__file__)))


def main():
    args = sys.argv[1:]
    srcroot, outfile = args[0], args[1]
    benign = "--benign" in args
    tier = args[args.index("--tier") + 1] if "--tier" in args else "quick"
    only = args[args.index("--only") + 1:] if "--only" in args else None
    checks_override = args[args.index("--checks") + 1].split(",") if "--checks" in args else None
    if only:
        only = [o for o in only if not o.startswith("--")]
    wt = tempfile.mkdtemp(prefix="seedwt_")
    os.rmdir(wt)
    subprocess.run(["git", "-C", "/repo", "worktree", "add", "-q", "--detach", wt, "HEAD"], check=True)
    try:
        jobs = []
        for g in sorted(os.listdir(srcroot)):
            gd = os.path.join(srcroot, g)
            if not os.path.isdir(gd):
                continue
            for n in sorted(os.listdir(gd)):
                d = os.path.join(gd, n)
                if os.path.isfile(os.path.join(d, "patch.diff")) and (only is None or "%s/%s" % (g, n) in only):
                    jobs.append((g, n, d))
        for g, n, d in jobs:
            rec = {"group": g, "n": n}
            env = dict(os.environ, PYTHONPATH=wt)
            subprocess.run(["git", "-C", wt, "checkout", "--", "."], check=True)
            subprocess.run(["git", "-C", wt, "clean", "-fdq"], check=True)

            def run(cmd, cwd):
                p = subprocess.run(cmd, cwd=cwd, env=env, capture_output=True, text=True, timeout=1800)
                return p.returncode, (p.stdout + p.stderr)[-300:]
            has_demo = os.path.isfile(os.path.join(d, "demo.py"))
            if has_demo:
                rec["demo_unmodified"] = run([PY, "demo.py"], d)[0]
            ap = subprocess.run(["git", "-C", wt, "apply", os.path.join(d, "patch.diff")], capture_output=True, text=True)
            if ap.returncode != 0:      # the tree moved on since the patch was written (fix: commits): merge
                ap = subprocess.run(["git", "-C", wt, "apply", "--3way", os.path.join(d, "patch.diff")], capture_output=True, text=True)
                subprocess.run(["git", "-C", wt, "reset", "-q"])
                rec["applied_3way"] = True
            if ap.returncode != 0:
                rec["applies"] = False
                rec["apply_err"] = ap.stderr[-200:]
                with open(outfile, "a") as fh:
                    fh.write(json.dumps(rec) + "\n")
                continue
            rec["applies"] = True
            rec["tests_with_change"], rec["tests_tail"] = run(TEST, wt)
            if has_demo:
                rec["demo_with_change"] = run([PY, "demo.py"], d)[0]
            checks = checks_override or (ALL if benign else [g])
            rec["checks"] = {}
            for c in checks:
                p = subprocess.run(["./check", c, "--tier", tier], cwd=VERIF, env=dict(os.environ, VERIF_REPO=wt),
                                   capture_output=True, text=True)
                lines = [l for l in p.stdout.splitlines() if l.startswith("VIOLATION")]
                other = [l for l in p.stdout.splitlines() if l.startswith(("MACHINERY", "MODEL-DRIFT", "EXTENDED-SPEC"))]
                rec["checks"][c] = {"exit": p.returncode, "violations": len(lines), "first": [l[:300] for l in lines[:3]],
                                    "other": [l[:200] for l in other[:4]],
                                    "tail": p.stdout.splitlines()[-1][:200] if p.stdout.strip() else p.stderr[-300:],
                                    "stderr": p.stderr[-1500:] if p.returncode == 2 else ""}
            with open(outfile, "a") as fh:
                fh.write(json.dumps(rec) + "\n")
            print(g, n, {c: v["exit"] for c, v in rec["checks"].items()}, flush=True)
    finally:
        subprocess.run(["git", "-C", "/repo", "worktree", "remove", "--force", wt])
        subprocess.run(["rm", "-rf", "/tmp/verif_alt", "/tmp/verif_alt_evidence"])


if __name__ == "__main__":
    main()
