#!/usr/bin/env python3
"""tools/make_seed_prompts.py <batch-dir> <worktree-root>
Write <batch-dir>/<Cxx>/prompt.txt for every property: the property's text (nothing else from /verif) plus one-paragraph
summaries of the changes already tried for it (from /verif/seeded/*/meta.json and earlier batch notes), and create a scratch
worktree of /repo's HEAD per property under <worktree-root>."""
import glob
import json
import os
import subprocess
import sys

VERIF = os.path.dirname(os.path.dirname(os.path.abspath(__file__)))
batch, wtroot = sys.argv[1], sys.argv[2]
TEMPLATE = open(os.path.join(VERIF, "tools", "seed_prompt_template.txt")).read()
props = [json.loads(l) for l in open(os.path.join(VERIF, "properties.jsonl"))]
for p in props:
    pid = p["id"]
    tried = []
    for d in sorted(glob.glob(os.path.join(VERIF, "seeded", pid + "-*"))):
        for name in ("notes.md", "meta.json"):
            f = os.path.join(d, name)
            if os.path.exists(f):
                txt = open(f).read()
                if name == "meta.json":
                    m = json.loads(txt)
                    txt = m.get("summary") or m.get("description") or m.get("what") or ""
                txt = " ".join(x.strip("#-* ") for x in txt.splitlines() if x.strip())[:330]
                if txt:
                    tried.append("  - " + txt)
                    break
    os.makedirs(os.path.join(batch, pid), exist_ok=True)
    wt = os.path.join(wtroot, pid)
    if not os.path.isdir(wt):
        os.makedirs(wtroot, exist_ok=True)
        subprocess.run(["git", "-C", "/repo", "worktree", "add", "-q", "--detach", wt, "HEAD"], check=True)
    text = (TEMPLATE.replace("@WT@", wt).replace("@OUT@", os.path.join(batch, pid)).replace("@PID@", pid)
            .replace("@TITLE@", p.get("title", "")).replace("@TEXT@", p.get("statement", p.get("text", "")))
            .replace("@TRIED@", "\n".join(tried)))
    with open(os.path.join(batch, pid, "prompt.txt"), "w") as fh:
        fh.write(text)
    print(pid, len(tried), "tried")
