#!/venv/bin/python
"""[ARCHIVE_AS=<m>] tools/archive_mutant.py <property> <n> <worktree> <checks...>
Confirm a sub-agent's mutation independently and keep it under /verif/seeded/<property>-<n>/ :
  1. the unmodified worktree passes the repository's tests and the demo exits 0
  2. with the patch: the tests still pass, the demo exits 1
  3. run the named checks against the patched worktree (VERIF_REPO) and record which VIOLATION lines appear
"""
import json
import os
import shutil
import subprocess
import sys

pid, n, wt = sys.argv[1:4]
checks = sys.argv[4:]
src = os.path.join(wt, "OUT", n)
dst = "/verif/seeded/%s-%s" % (pid, os.environ.get("ARCHIVE_AS", n))   # ARCHIVE_AS: number under seeded/ when it differs from OUT/<n>
PY = "/venv/bin/python"
TEST = [PY, "-m", "pytest", "-q", "-p", "no:cacheprovider", "tests", "demo", "--deselect",
        "tests/test_config.py::TestDefaultCodeFilter::test_excludes_site_packages"]


def run(cmd, **kw):
    p = subprocess.run(cmd, cwd=wt, capture_output=True, text=True, **kw)
    return p.returncode, (p.stdout + p.stderr)[-400:]


subprocess.run(["git", "-C", wt, "checkout", "--", "monkeytype"], check=True)
base_tests = run(TEST)[0]
base_demo = run([PY, os.path.join("OUT", n, "demo.py")])[0]
subprocess.run(["git", "-C", wt, "apply", os.path.join(src, "patch.diff")], check=True)
try:
    mut_tests = run(TEST)[0]
    mut_demo, demo_out = run([PY, os.path.join("OUT", n, "demo.py")])
    detected = {}
    for c in checks:
        p = subprocess.run(["./check", c], cwd="/verif", env=dict(os.environ, VERIF_REPO=wt), capture_output=True, text=True)
        lines = [l for l in p.stdout.splitlines() if l.startswith("VIOLATION")]
        detected[c] = {"exit": p.returncode, "violation_lines": len(lines), "first": lines[:2]}
finally:
    subprocess.run(["git", "-C", wt, "checkout", "--", "monkeytype"], check=True)
ok = base_tests == 0 and base_demo == 0 and mut_tests == 0 and mut_demo == 1
os.makedirs(dst, exist_ok=True)
for f in ("patch.diff", "demo.py", "notes.md"):
    shutil.copy(os.path.join(src, f), os.path.join(dst, f))
meta = {"property": pid, "needs_to_manifest": open(os.path.join(src, "notes.md")).read()[:1500],
        "confirmed": {"tests_pass_unmodified": base_tests == 0, "demo_passes_unmodified": base_demo == 0,
                      "tests_pass_with_change": mut_tests == 0, "demo_fails_with_change": mut_demo == 1},
        "what_i_ran": ["pytest tests demo (minus the one always-failing test) in a scratch worktree with and without the patch",
                       "OUT/%s/demo.py with and without the patch" % n] + ["VERIF_REPO=<worktree> ./check %s" % c for c in checks],
        "detected_by": detected, "kept": ok}
with open(os.path.join(dst, "meta.json"), "w") as fh:
    json.dump(meta, fh, indent=1)
print(pid, n, "confirmed" if ok else "NOT CONFIRMED", {c: d["exit"] for c, d in detected.items()})
