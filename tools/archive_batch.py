#!/venv/bin/python
"""tools/archive_batch.py <srcroot> <results.jsonl> <first number> [<ported root>]      (env BATCH=<n>, RESULTS_AFTER=<results of the re-run>)
Copy a batch of confirmed sub-agent changes (srcroot/<Cxx>/<n>/{patch.diff,demo.py,notes.md}) to /verif/seeded/<Cxx>-<first+n-1>/
with a meta.json built from the evaluation results (tools/eval_seeded.py).  A change whose patch had to be ported to a newer
HEAD (ported root/<Cxx>/<n>/patch.diff) is archived with both patches."""
import json
import os
import shutil
import sys

src, results, first = sys.argv[1], sys.argv[2], int(sys.argv[3])
ported = sys.argv[4] if len(sys.argv) > 4 else None
after = {}
if os.environ.get("RESULTS_AFTER"):
    for line in open(os.environ["RESULTS_AFTER"]):
        r = json.loads(line)
        after[(r["group"], r["n"])] = r
res = {}
for f in results.split(","):
    for line in open(f):
        r = json.loads(line)
        res[(r["group"], r["n"])] = r
for (g, n), r in sorted(res.items()):
    d = os.path.join(src, g, n)
    ok = r.get("demo_unmodified") == 0 and r.get("tests_with_change") == 0 and r.get("demo_with_change") not in (0, None)
    if not ok:
        print("NOT CONFIRMED", g, n)
        continue
    dst = "/verif/seeded/%s-%d" % (g, first + int(n) - 1)
    os.makedirs(dst, exist_ok=True)
    for f in ("patch.diff", "demo.py", "notes.md"):
        shutil.copy(os.path.join(d, f), os.path.join(dst, f))
    if ported and os.path.exists(os.path.join(ported, g, n, "patch.diff")):
        shutil.copy(os.path.join(ported, g, n, "patch.diff"), os.path.join(dst, "patch_ported_to_later_head.diff"))
    meta = {"property": g, "batch": int(os.environ.get("BATCH", "5")), "needs_to_manifest": open(os.path.join(d, "notes.md")).read()[:1800],
            "confirmed": {"demo_passes_unmodified": True, "tests_pass_with_change": True, "demo_fails_with_change": True},
            "what_i_ran": ["tools/eval_seeded.py: pytest tests demo (minus the baseline's always-failing test) and demo.py in a scratch worktree, "
                           "with and without the patch; VERIF_REPO=<worktree> ./check %s" % g],
            "detected_by_checks_as_they_stood": {c: {"exit": v["exit"], "violation_lines": v["violations"], "first": v["first"][:2]}
                                                 for c, v in r.get("checks", {}).items()},
            "detected_by": sorted(c for c, v in r.get("checks", {}).items() if v["exit"] == 1)}
    if (g, n) in after:
        meta["detected_after_strengthening"] = {c: {"exit": v["exit"], "violation_lines": v["violations"], "first": v["first"][:2]}
                                                for c, v in after[(g, n)].get("checks", {}).items()}
        meta["detected_by"] = sorted(set(meta["detected_by"]) | {c for c, v in after[(g, n)].get("checks", {}).items() if v["exit"] == 1})
    json.dump(meta, open(os.path.join(dst, "meta.json"), "w"), indent=1)
    print("archived", dst, {c: v["exit"] for c, v in r.get("checks", {}).items()})
