#!/bin/sh
# usage: tools/try_mutant.sh <worktree> <patch> <check id> [more check ids]
# applies the patch in the scratch worktree, runs the checks against it (VERIF_REPO), reverts.
wt=$1; patch=$2; shift 2
git -C "$wt" apply "$patch" || exit 2
for c in "$@"; do
  echo "== $c on $(basename $patch) in $wt"
  (cd /verif && VERIF_REPO="$wt" ./check "$c" 2>&1 | grep -E "^VIOLATION|quick:|MACHINERY" | cut -c1-260 | head -6)
done
git -C "$wt" checkout -- monkeytype
