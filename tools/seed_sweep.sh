#!/bin/sh
# usage: tools/seed_sweep.sh <seeds...>   every quick check under other seeds: anything but "ok" lines is a seed-dependent alarm
cd "$(dirname "$0")/.."
for s in "$@"; do for i in 01 02 03 04 05 06 07 08 09 10 11 12 13 14 15 16 17 18; do
  echo "== seed $s C$i"; VERIF_SEED=$s ./check C$i --tier quick 2>&1 | grep -E "^VIOLATION|^MACHINERY|^Traceback|quick:" | cut -c1-300; done; done
