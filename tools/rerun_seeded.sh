#!/bin/sh
# usage: tools/rerun_seeded.sh [ids...]     (default: every directory under /verif/seeded)
# Regression over the archived seeded changes: each patch is applied to a scratch worktree of /repo's HEAD
# (outside /repo and /verif, removed afterwards) and the checks recorded in its meta.json are run against it.
# Prints one line per change: DETECTED <id> <checks that reported>, MISSED <id>, or STALE <id> (patch no longer applies).
cd /verif || exit 2
wt=$(mktemp -d /tmp/seeded_wt.XXXXXX)
rmdir "$wt"
git -C /repo worktree add -q --detach "$wt" HEAD || exit 2
trap 'git -C /repo worktree remove --force "$wt"; rm -rf /tmp/verif_alt /tmp/verif_alt_evidence' EXIT
ids="$*"
[ -z "$ids" ] && ids=$(ls seeded)
for id in $ids; do
  d=seeded/$id
  [ -f "$d/patch.diff" ] || continue
  if ! git -C "$wt" apply --check "$PWD/$d/patch.diff" 2>/dev/null; then echo "STALE    $id"; continue; fi
  git -C "$wt" apply "$PWD/$d/patch.diff"
  hit=""
  for c in $(/venv/bin/python -c "import json,sys; print(' '.join(json.load(open('$d/meta.json'))['detected_by']))"); do
    if VERIF_REPO="$wt" ./check "$c" 2>/dev/null | grep -q "^VIOLATION property=$c "; then hit="$hit $c"; fi
  done
  git -C "$wt" checkout -- monkeytype
  if [ -n "$hit" ]; then echo "DETECTED $id$hit"; else echo "MISSED   $id"; fi
done
