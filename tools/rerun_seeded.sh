#!/bin/sh
# usage: tools/rerun_seeded.sh [ids...]     (default: every directory under <verif>/seeded)
# Regression over the archived seeded changes: each patch is applied to a scratch worktree of /repo's HEAD
# (outside /repo and /verif, removed afterwards) and the check of its own property is run against it.
# A patch that no longer applies is tried as patch_ported_to_later_head.diff, then with a 3-way merge.
# Prints one line per change: DETECTED <id> <checks that reported>, MISSED <id>, or STALE <id> (the code it touched was repaired).
here=$(cd "$(dirname "$0")/.." && pwd)
cd "$here" || exit 2
wt=$(mktemp -d /tmp/seeded_wt.XXXXXX)
rmdir "$wt"
git -C /repo worktree add -q --detach "$wt" HEAD || exit 2
trap 'git -C /repo worktree remove --force "$wt"; rm -rf /tmp/verif_alt /tmp/verif_alt_evidence' EXIT
ids="$*"
[ -z "$ids" ] && ids=$(ls seeded)
for id in $ids; do
  d=seeded/$id
  [ -f "$d/patch.diff" ] || continue
  git -C "$wt" checkout -q -- . ; git -C "$wt" clean -fdq
  how=""
  if git -C "$wt" apply "$here/$d/patch.diff" 2>/dev/null; then how=plain
  elif [ -f "$d/patch_ported_to_later_head.diff" ] && git -C "$wt" apply "$here/$d/patch_ported_to_later_head.diff" 2>/dev/null; then how=ported
  elif git -C "$wt" apply --3way "$here/$d/patch.diff" >/dev/null 2>&1 && ! grep -rq "^<<<<<<<" "$wt/monkeytype"; then git -C "$wt" reset -q; how=3way
  else git -C "$wt" reset -q --hard; echo "STALE    $id"; continue; fi
  # a change whose demonstration passes again was neutralised by a later fix: commit
  if [ -f "$d/demo.py" ] && (cd "$d" && PYTHONPATH="$wt" timeout 300 /venv/bin/python demo.py >/dev/null 2>&1); then echo "NEUTRAL  $id ($how; its demonstration passes on this tree)"; continue; fi
  prop=${id%%-*}
  hit=""
  if VERIF_REPO="$wt" ./check "$prop" 2>/dev/null | grep -q "^VIOLATION property=$prop "; then hit="$prop"; fi
  if [ -n "$hit" ]; then echo "DETECTED $id ($how)"; else echo "MISSED   $id ($how)"; fi
done
