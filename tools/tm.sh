#!/bin/sh
# usage: tools/tm.sh <dir with patch.diff> <check id> [more ids]   -- try one change against checks in a scratch worktree of HEAD
d=$1; shift
wt=/tmp/wtm_$$
git -C /repo worktree add -q --detach $wt HEAD || exit 2
trap 'git -C /repo worktree remove --force '$wt'' EXIT
(git -C $wt apply $d/patch.diff 2>/dev/null || { git -C $wt apply --3way $d/patch.diff >/dev/null 2>&1; git -C $wt reset -q; }) 
if git -C $wt diff --quiet; then echo "PATCH DID NOT APPLY"; exit 2; fi
if grep -q "^<<<<<<<" -r $wt/monkeytype; then echo "CONFLICT"; exit 2; fi
for c in "$@"; do
  (cd /verif && VERIF_REPO=$wt ./check $c 2>&1 | grep -E "^VIOLATION|quick:|MACHINERY|^EXTENDED" | cut -c1-330 | head -${TM_LINES:-5})
done
