#!/bin/sh
# usage: tools/eval_benign.sh <srcroot> <outfile>    property-preserving changes: every relevant check must stay silent
here=$(cd "$(dirname "$0")/.." && pwd)
src=$1; out=$2
run() { area=$1; shift; [ -d "$src/$area" ] || return; mkdir -p /tmp/benign_one.$$; rm -rf /tmp/benign_one.$$/*; ln -s "$src/$area" /tmp/benign_one.$$/$area;
        "$here/tools/eval_seeded.py" /tmp/benign_one.$$ "$out" --benign --checks "$1"; rm -rf /tmp/benign_one.$$; }
run tracing C02,C03,C17,C18,C01
run config_util C17,C10,C08,C04,C11
run cli_apply C10,C15,C16,C13,C01
run encoding_db C08,C09,C10,C14,C06
run typing C04,C05,C06,C07,C01,C14
run stubs C11,C12,C13,C06,C01,C14
