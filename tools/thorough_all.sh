#!/bin/sh
# usage: tools/thorough_all.sh [ids...]   every thorough check once; prints one summary line per check (plus anything that is not a known finding)
cd "$(dirname "$0")/.."
ids="$*"; [ -z "$ids" ] && ids="C12 C13 C11 C03 C17 C08 C10 C16 C15 C14 C07 C01 C02 C18 C09 C04 C05 C06"
for c in $ids; do
  echo "== thorough $c $(date +%H:%M:%S)"; ./check $c --tier thorough 2>&1 | grep -E "^VIOLATION|^MACHINERY|^Traceback|^EXTENDED|thorough:" | cut -c1-300 | head -12
done
