"""C11 / C12 / C13: generated modules -> real traces -> real build_module_stubs_from_traces -> stub text
-> abs_stub projection; TLC validates against MTStubTrace (P-layer clauses from MTSignature)."""
import concurrent.futures
import functools
import importlib
import inspect
import itertools
import json
import os
import random
import sys
import typing

from . import absmodel, core, envgen, stubmodel, tlc, universe
from .absmodel import ABSENT, T

HEADER = '''"""GENERATED module for stub checks"""
import functools
import types
from typing import Any, Dict, Generator, List, Optional, Set, Tuple, Union
from zfoo import ExtId
import zutil


class Own:
    pass


class _AnyEq:
    """A wildcard default (unittest.mock.ANY, a "not given" sentinel): equal to everything."""
    def __eq__(self, other):
        return True

    def __ne__(self, other):
        return False
    __hash__ = object.__hash__


class _RaisesEq:
    """A default that refuses comparison (an array-like, a lazy object)."""
    def __eq__(self, other):
        raise RuntimeError("no comparison")
    __hash__ = object.__hash__

    def __bool__(self):
        raise RuntimeError("no truth value")


_ANY_EQ, _RAISES_EQ = _AnyEq(), _RaisesEq()


def wraps_deco(fn):
    """an ordinary synchronous decorator that uses functools.wraps"""
    import functools

    @functools.wraps(fn)
    def wrapper(*a, **k):
        return fn(*a, **k)
    return wrapper


class my_classmethod(classmethod):
    """project-specific descriptor subclasses (like abc.abstractclassmethod, a validating property, ...)"""


class my_staticmethod(staticmethod):
    pass


class my_property(property):
    pass


'''
KINDMAP = {inspect.Parameter.POSITIONAL_ONLY: "posonly", inspect.Parameter.POSITIONAL_OR_KEYWORD: "poskw",
           inspect.Parameter.VAR_POSITIONAL: "varpos", inspect.Parameter.KEYWORD_ONLY: "kwonly",
           inspect.Parameter.VAR_KEYWORD: "varkw"}


def render_params(params, recv, recv_ann=None, recv_posonly=False):
    out, seen_posonly, star_done = ([recv + (": " + recv_ann if recv_ann else "")] if recv else []), False, False
    po = [p for p in params if p["kind"] == "posonly"]
    pk = [p for p in params if p["kind"] == "poskw"]
    va = [p for p in params if p["kind"] == "varpos"]
    ko = [p for p in params if p["kind"] == "kwonly"]
    vk = [p for p in params if p["kind"] == "varkw"]

    def one(p, prefix=""):
        s = prefix + p["name"]
        if p.get("ann"):
            s += ": " + p["ann"]
        if p.get("default") is not None:
            s += (" = " if p.get("ann") else "=") + p["default"]
        return s
    out += [one(p) for p in po]
    if po or (recv and recv_posonly):       # `def m(self, /, x)`: the receiver alone is positional-only
        out.append("/")
    out += [one(p) for p in pk]
    if va:
        out.append(one(va[0], "*"))
    elif ko:
        out.append("*")
    out += [one(p) for p in ko]
    if vk:
        out.append(one(vk[0], "**"))
    return ", ".join(out)


def func_source(f, ind):
    recv = {"instance": "self", "class": "cls", "property": "self", "cached": "self"}.get(f["fkind"])
    lines = []
    sub = "my_" if f.get("deco_sub") else ""
    if f["fkind"] == "class":
        lines.append(ind + "@" + sub + "classmethod")
    elif f["fkind"] == "static":
        lines.append(ind + "@" + sub + "staticmethod")
    elif f["fkind"] == "property":
        lines.append(ind + "@" + sub + "property")
    elif f["fkind"] == "cached":
        lines.append(ind + "@functools.cached_property")
    if f.get("wraps"):
        lines.append(ind + "@wraps_deco")
    if f.get("types_coroutine"):      # a generator-based coroutine: NOT a coroutine function (inspect.iscoroutinefunction is False)
        lines.append(ind + "@types.coroutine")
    ret = " -> " + f["ret_ann"] if f.get("ret_ann") else ""
    lines.append("%s%sdef %s(%s)%s:" % (ind, "async " if f.get("is_async") else "", f["name"],
                                        render_params(f["params"], recv, f.get("recv_ann"), f.get("recv_posonly", False)), ret))
    lines.append(ind + ("    yield None" if f.get("is_gen") else "    return None"))
    return "\n".join(lines) + "\n\n"


OWN_OUTER = '''class Outer:
    """(only in modules of the naming-rules family) a nested class of the module itself, named like zutil.Outer.Inner"""

    class Inner:
        pass


'''


def module_source(funcs):
    src = HEADER + (OWN_OUTER if any(f.get("own_outer") for f in funcs) else "")
    tree = {}
    for f in funcs:
        node = tree
        for c in f["container"]:
            node = node.setdefault(c, {})
        node.setdefault("__funcs__", []).append(f)

    def emit(node, ind):
        s = ""
        for f in node.get("__funcs__", []):
            s += func_source(f, ind)
        for name, sub in node.items():
            if name == "__funcs__":
                continue
            s += "%sclass %s:\n" % (ind, name) + (emit(sub, ind + "    ") or ind + "    pass\n") + "\n"
        return s
    return src + emit(tree, "")


_COUNTER = [0]
_DIR = [None]


PKG_INIT = '''"""GENERATED package: its submodules are the modules under test; its own classes are what they use"""


class PkgOwn:
    pass


class PkgOuter:
    class Inner:
        pass
'''


def load_module(funcs):
    if _DIR[0] is None:
        _DIR[0] = tlc.scratch_dir("mtverif_gen_")
        sys.path.insert(0, _DIR[0])
        os.makedirs(os.path.join(_DIR[0], "mtgpkg", "sub"))
        for rel in (("mtgpkg", "__init__.py"), ("mtgpkg", "sub", "__init__.py")):
            with open(os.path.join(_DIR[0], *rel), "w") as fh:
                fh.write(PKG_INIT)
    _COUNTER[0] += 1
    name = "mtg_%d_%d" % (os.getpid(), _COUNTER[0])
    path = os.path.join(_DIR[0], name + ".py")
    if any(f.get("in_package") for f in funcs):      # the module under test is mtgpkg.sub.<name>: two enclosing packages
        path = os.path.join(_DIR[0], "mtgpkg", "sub", name + ".py")
        name = "mtgpkg.sub." + name
    with open(path, "w") as fh:
        fh.write(module_source(funcs))
    importlib.invalidate_caches()
    mod = importlib.import_module(name)
    return mod, path


CLI_CONFIG_SRC = '''
import os
from monkeytype.config import Config
from monkeytype.db.sqlite import SQLiteStore
from monkeytype.typing import NoOpRewriter


class GenConfig(Config):
    def trace_store(self):
        return SQLiteStore.make_store(os.environ["MTG_DB"])

    def max_typed_dict_size(self):
        return int(os.environ.get("MTG_K", "0"))

    def type_rewriter(self):
        from monkeytype.typing import DEFAULT_REWRITER
        return DEFAULT_REWRITER if os.environ.get("MTG_RW") == "DEFAULT" else NoOpRewriter()


CONFIG = GenConfig()
'''
CLI_FLAGS = {"REPLICATE": [], "OMIT": ["--omit-existing-annotations"], "IGNORE": ["--ignore-existing-annotations"]}


def stub_via_cli(modname, traces, case):
    """The same stub through the command line: traces -> SQLite store -> `monkeytype stub <module> [option]`."""
    import io
    from monkeytype import cli
    from monkeytype.db.sqlite import SQLiteStore
    cfgp = os.path.join(_DIR[0], "mtg_config.py")
    if not os.path.exists(cfgp):
        with open(cfgp, "w") as fh:
            fh.write(CLI_CONFIG_SRC)
        importlib.invalidate_caches()
    db = os.path.join(_DIR[0], modname + ".db")
    os.environ.update(MTG_DB=db, MTG_K=str(case["k"]), MTG_RW=case.get("rw", "NONE"))
    try:
        st = SQLiteStore.make_store(db)
        st.add(traces)
        st.conn.close()
        out, err = io.StringIO(), io.StringIO()
        rc = cli.main(["-c", "mtg_config:CONFIG"] + list(case.get("cli_extra", [])) + ["stub", modname] + CLI_FLAGS[case["strategy"]], out, err)
        if rc != 0:
            raise RuntimeError("stub exited %s: %s" % (rc, err.getvalue()[-200:]))
        return out.getvalue().rstrip("\n")
    finally:
        if os.path.exists(db):
            os.unlink(db)


def live_function(mod, f):
    obj = mod
    for c in f["container"]:
        obj = getattr(obj, c)
    raw = obj.__dict__[f["name"]] if f["container"] else getattr(obj, f["name"])
    if isinstance(raw, (classmethod, staticmethod)):
        raw = raw.__func__
    elif isinstance(raw, property):
        raw = raw.fget
    elif isinstance(raw, functools.cached_property):
        raw = raw.func
    return inspect.unwrap(raw)        # the function whose code runs (what a trace refers to), below functools.wraps decorators


def abs_or_absent(t):
    return ABSENT if t is None else absmodel.abs_type(t)


def run_module_case(case):
    """case = {tid, funcs:[spec + traced:{args:{name: abs type}, ret, yld} | None], strategy, k}"""
    from monkeytype.stubs import ExistingAnnotationStrategy, build_module_stubs_from_traces
    from monkeytype.tracing import CallTrace
    from monkeytype.typing import make_typed_dict
    mk = lambda req, opt: make_typed_dict(required_fields=req, optional_fields=opt)  # noqa: E731
    rt = lambda a: None if a is None or a["k"] == "absent" else absmodel.real_type(a, make_td=mk)  # noqa: E731
    # traces given by VALUES: the traced type is what the real get_type infers for the value under this case's limit
    from monkeytype.typing import get_type
    for f in case["funcs"]:
        for tr in f.get("traces") or []:
            for n, v in (tr.pop("vals", None) or {}).items():
                tr["args"][n] = absmodel.abs_type(get_type(absmodel.real_value(v), case["k"]))
    mod, path = load_module(case["funcs"])
    mod2 = path2 = None
    if case.get("other"):      # a second module traced in the same session (its stub is not the one examined)
        mod2, path2 = load_module(case["other"])

    def subst(t, own, other):
        """$OWN / $OTHER_OWN in a case's trace types: the class `Own` of the function's module / of the other module."""
        if t is None:
            return t
        if t["k"] == "cls" and t["n"] in ("$OWN", "$OTHER_OWN"):
            return T("cls", absmodel.TABLE.name((own if t["n"] == "$OWN" else other).Own))
        if t["k"] == "cls" and t["n"] == "$OWN_INNER":
            return T("cls", absmodel.TABLE.name(own.Outer.Inner))
        if t["k"] == "cls" and t["n"] in ("$PKG", "$PKG_INNER", "$SUBPKG"):
            import mtgpkg
            import mtgpkg.sub
            return T("cls", absmodel.TABLE.name({"$PKG": mtgpkg.PkgOwn, "$PKG_INNER": mtgpkg.PkgOuter.Inner, "$SUBPKG": mtgpkg.sub.PkgOwn}[t["n"]]))
        return dict(t, a=[subst(x, own, other) for x in t["a"]], u=[subst(x, own, other) for x in t["u"]])
    for fs, own, other in ((case["funcs"], mod, mod2), (case.get("other") or [], mod2, mod)):
        for f in fs:
            for tr in f.get("traces") or []:
                tr["args"] = {n: subst(a, own, other) for n, a in tr["args"].items()}
                tr["ret"], tr["yld"] = subst(tr.get("ret"), own, other), subst(tr.get("yld"), own, other)
    try:
        traces, lives = [], {}

        def traces_of(m, funcs, keep):
            out = []
            for f in funcs:
                lf = live_function(m, f)
                if keep:
                    lives[f["name"] + "@" + ".".join(f["container"])] = lf
                owner = m
                for c in f["container"]:
                    owner = getattr(owner, c)
                # like the real tracer, a trace of a method records the receiver too (self: the class, cls: Type[class])
                recv_arg = {"instance": {"self": owner}, "property": {"self": owner}, "cached": {"self": owner},
                            "class": {"cls": typing.Type[owner]}}.get(f["fkind"], {})
                for tr in f.get("traces") or []:
                    out.append(CallTrace(lf, dict(recv_arg, **{n: rt(a) for n, a in tr["args"].items()}), rt(tr.get("ret")), rt(tr.get("yld"))))
            return out
        traces = traces_of(mod, case["funcs"], True)
        if case.get("interleave"):      # the traces of one function are not adjacent: round-robin over the functions
            per, k2 = {}, []
            for t in traces:
                per.setdefault(id(t.func), []).append(t)
            queues = list(per.values())
            while any(queues):
                for qq in queues:
                    if qq:
                        k2.append(qq.pop(0))
            traces = k2
        if case.get("other"):
            t2 = traces_of(mod2, case["other"], False)
            traces = t2 + traces if case.get("other_first") else traces + t2
        strategy = getattr(ExistingAnnotationStrategy, case["strategy"])
        err, text = "NONE", ""
        try:
            if case.get("via_cli"):
                text = stub_via_cli(mod.__name__, traces, case)
            else:
                stubs = build_module_stubs_from_traces(traces, case["k"], strategy, None)
                text = stubs[mod.__name__].render() if mod.__name__ in stubs else ""
        except Exception as e:
            err = type(e).__name__
        own = {n: v for n, v in vars(mod).items() if isinstance(v, type) and v.__module__ == mod.__name__}
        ab = stubmodel.abs_stub(text, own)
        rec = {"tid": case["tid"], "strategy": case["strategy"], "parses": bool(ab["parses"]) and err == "NONE", "err": err,
               "extra": [], "tdok": True, "funcs": [], "text": text[:1500],
               "unres_sig": ab.get("unres_sig", []), "unres_td": ab.get("unres_td", []), "dup_td": ab.get("dup_td", False)}
        if not rec["parses"]:
            return rec
        ev = ab["_ev"]
        rec["tdok"] = all(ev.td_base_ok(n) for n in ev.td)
        traced_keys = set()
        for f in case["funcs"]:
            if not f.get("traces"):
                continue
            key = (tuple(f["container"]), f["name"])
            traced_keys.add(key)
            lf = lives[f["name"] + "@" + ".".join(f["container"])]
            matches = [s for s in ab["funcs"] if s["name"] == f["name"]]
            placed = [s for s in matches if tuple(s["class_path"]) == key[0]]
            s = (placed or matches or [None])[0]
            sig = inspect.signature(lf)
            try:
                hints = typing.get_type_hints(lf)
            except Exception:
                hints = {}
            live = [{"name": p.name, "kind": KINDMAP[p.kind], "default": p.default is not p.empty} for p in sig.parameters.values()]
            frec = {"key": ".".join(f["container"] + [f["name"]]), "count": len(matches), "placed": bool(placed),
                    "decok": True, "asyncok": True, "live": live, "stub": [], "cells": [],
                    "srcret": abs_or_absent(hints.get("return")) if "return" in getattr(lf, "__annotations__", {}) else ABSENT,
                    "tret": ABSENT, "tyld": ABSENT, "gotret": ABSENT}
            merged = {}
            rets, ylds = [], []
            for tr in f["traces"]:
                for n, a in tr["args"].items():
                    merged.setdefault(n, []).append(a)
                if tr.get("ret") is not None:
                    rets.append(tr["ret"])
                if tr.get("yld") is not None:
                    ylds.append(tr["yld"])
            # several traces of one function: the traced type of a position is the union of what was traced
            # (the scenarios use plain classes here; merging of structured types is C04's subject)
            def union_of(ts):
                uniq = {absmodel.canon(t): t for t in ts}
                if not uniq:
                    return ABSENT
                return list(uniq.values())[0] if len(uniq) == 1 else T("union", "", [], [uniq[k] for k in sorted(uniq)])
            frec["tret"] = union_of(rets)
            frec["tyld"] = union_of(ylds)
            if s is not None:
                want = {"class": ["classmethod"], "static": ["staticmethod"], "property": ["property"]}.get(f["fkind"], [])
                frec["decok"] = s["decorators"] == want
                if f["fkind"] == "cached":     # no decorator is prescribed for it; if one is written, it must be a name the stub provides
                    frec["decok"] = s["decorators"] in ([], ["cached_property"], ["functools.cached_property"])
                    for dname in s["decorators"]:
                        if dname.split(".")[0] not in ev.ns:
                            rec["tdok"] = False
                            rec["deco_unres"] = True
                frec["asyncok"] = s["async"] == bool(f.get("is_async"))
                frec["stub"] = [{"name": p["name"], "kind": p["kind"], "default": p["default"]} for p in s["params"]]
                frec["gotret"] = s["ret"]
                got = {p["name"]: p["ann"] for p in s["params"]}
                has_self = f["fkind"] in ("instance", "class", "property", "cached")
                for idx, p in enumerate(sig.parameters.values()):
                    annotated = p.name in getattr(lf, "__annotations__", {})
                    frec["cells"].append({
                        "pos": p.name, "self": has_self and idx == 0, "defnone": p.default is None,
                        "src": abs_or_absent(hints.get(p.name)) if annotated else ABSENT,
                        "traced": union_of(merged[p.name]) if p.name in merged else ABSENT,
                        "got": got.get(p.name, ABSENT)})
            rec["funcs"].append(frec)
        rec["extra"] = sorted({".".join(s["class_path"] + [s["name"]]) for s in ab["funcs"]
                               if (tuple(s["class_path"]), s["name"]) not in traced_keys})
        return rec
    finally:
        for m, pth in ((mod, path), (mod2, path2)):
            if m is None:
                continue
            sys.modules.pop(m.__name__, None)
            try:
                os.unlink(pth)
            except OSError:
                pass


def _run_chunk(chunk):
    core.use_repo()
    envgen.load_fixture_classes()
    import logging
    logging.disable(logging.CRITICAL)
    recs = [run_module_case(c) for c in chunk]
    return recs, (absmodel.TABLE.mro, absmodel.TABLE.bases, absmodel.TABLE.modqn)


def run_cases(cases, procs=16):
    chunks = [cases[i::procs] for i in range(procs)]
    out = []
    with concurrent.futures.ProcessPoolExecutor(max_workers=procs) as ex:
        for recs, (mro, bases, modqn) in ex.map(_run_chunk, [c for c in chunks if c]):
            out.extend(recs)
            absmodel.TABLE.mro.update(mro)
            absmodel.TABLE.bases.update(bases)
            absmodel.TABLE.modqn.update(modqn)
    return out


# ------------------------------------------------------------------------------ scenario families
INT, STR, NONE = T("cls", "int"), T("cls", "str"), T("cls", "NoneType")


def shapes():
    """All legal parameter lists: 0..1 positional-only, 0..2 positional-or-keyword, *args?, 0..1 keyword-only,
    **kwargs?, every number of trailing positional defaults, default value None or 1."""
    out = []
    for npo, npk, va, nko, vk in itertools.product((0, 1), (0, 1, 2), (0, 1), (0, 1), (0, 1)):
        npos = npo + npk
        for nd in range(npos + 1):
            for dval in (("1",) if nd == 0 else ("1", "None")):
                for kd in ((None,) if nko == 0 else (None, "None")):
                    ps = []
                    names = iter("abcdefgh")
                    for i in range(npos):
                        ps.append({"name": next(names), "kind": "posonly" if i < npo else "poskw",
                                   "default": dval if i >= npos - nd else None})
                    if va:
                        ps.append({"name": "args", "kind": "varpos", "default": None})
                    for i in range(nko):
                        ps.append({"name": next(names), "kind": "kwonly", "default": kd})
                    if vk:
                        ps.append({"name": "kwargs", "kind": "varkw", "default": None})
                    out.append(ps)
    return out


def traces_for(params, ty=INT, ret=INT, yld=None):
    args = {p["name"]: ty for p in params if p["kind"] in ("posonly", "poskw", "kwonly")}
    return [{"args": args, "ret": ret, "yld": yld}]


def gen_c12(tier, seed):
    rng = random.Random(seed)
    cases = []
    sh = shapes()
    fkinds = [("module", []), ("instance", ["Cls"]), ("class", ["Cls"]), ("static", ["Cls"]), ("property", ["Cls"])]
    funcs = []
    for n, ps in enumerate(sh):
        for fk, cont in fkinds:
            if fk == "property" and ps:
                continue
            funcs.append({"name": "f%d_%s" % (n, fk), "container": cont, "fkind": fk, "params": ps,
                          "is_async": n % 7 == 3 and fk != "property", "is_gen": n % 5 == 2 and fk != "property" and n % 7 != 3})
    rng.shuffle(funcs)
    # modules of 6 functions, a random subset of them traced
    for i in range(0, len(funcs), 6):
        grp = [dict(f) for f in funcs[i:i + 6]]
        for f in grp:
            if rng.random() < 0.65:
                f["traces"] = traces_for(f["params"], yld=INT if f["is_gen"] else None, ret=None if f["is_gen"] else INT)
        if not any(f.get("traces") for f in grp):
            grp[0]["traces"] = traces_for(grp[0]["params"])
        cases.append({"funcs": grp, "strategy": "REPLICATE", "k": 0, "family": "c12_shapes"})
        if (i // 6) % 3 == 0:    # the same module through the store and `monkeytype stub`
            cases.append({"funcs": [dict(f) for f in grp], "strategy": "REPLICATE", "k": 0, "family": "c12_shapes_via_cli", "via_cli": True})
    # the same qualified name with a different kind in every module (many modules per process)
    for n in range(60 if tier == "quick" else 600):
        fk = ["instance", "class", "static"][n % 3] if n % 4 else "property"
        ps = [] if fk == "property" else [{"name": "a", "kind": "poskw", "default": None}, {"name": "b", "kind": "poskw", "default": "None"}]
        f = {"name": "build", "container": ["Widget"], "fkind": fk, "params": ps, "traces": traces_for(ps)}
        cases.append({"funcs": [f], "strategy": "REPLICATE", "k": 0, "family": "c12_same_qualname_other_kind"})
    # methods whose receiver is positional-only (`def m(self, /, x)`, `def c(cls, a, /, b)`)
    for n, (fk, ps) in enumerate([(fk, ps) for fk in ("instance", "class", "property") for ps in (
            [], [{"name": "x", "kind": "poskw", "default": None}],
            [{"name": "a", "kind": "posonly", "default": None}, {"name": "b", "kind": "poskw", "default": "None"}],
            [{"name": "x", "kind": "kwonly", "default": None}]) if not (fk == "property" and ps)]):
        f = {"name": "po_recv_%d" % n, "container": ["Cls"], "fkind": fk, "params": ps, "recv_posonly": True, "traces": traces_for(ps)}
        cases.append({"funcs": [f], "strategy": "REPLICATE", "k": 0, "family": "c12_positional_only_receiver"})
    # defaults that answer == in their own way (a wildcard equal to everything, an object that refuses comparison)
    for n, ps in enumerate([
            [{"name": "a", "kind": "poskw", "default": "1"}, {"name": "b", "kind": "poskw", "default": "_ANY_EQ"}],
            [{"name": "a", "kind": "poskw", "default": None}, {"name": "b", "kind": "poskw", "default": "_ANY_EQ"}],
            [{"name": "a", "kind": "poskw", "default": "_ANY_EQ"}, {"name": "b", "kind": "poskw", "default": "None"}],
            [{"name": "a", "kind": "posonly", "default": "_ANY_EQ"}], [{"name": "a", "kind": "kwonly", "default": "_ANY_EQ"}],
            [{"name": "a", "kind": "poskw", "default": "_RAISES_EQ"}], [{"name": "a", "kind": "poskw", "default": None}, {"name": "k", "kind": "kwonly", "default": "_RAISES_EQ"}]]):
        for fk, cont in (("module", []), ("instance", ["Cls"]), ("static", ["Cls"])):
            for traced in (True, False):      # the parameter with the odd default traced (it was passed) or left to its default
                tr = {p["name"]: INT for p in ps if traced or p["default"] in (None, "1", "None")}
                f = {"name": "odd_default_%d" % n, "container": cont, "fkind": fk, "params": ps, "traces": [{"args": tr, "ret": INT, "yld": None}]}
                cases.append({"funcs": [f], "strategy": "REPLICATE", "k": 0, "family": "c12_defaults_with_their_own_equality", "via_cli": n % 2 == 0})
    # generator-based coroutines (@types.coroutine): generator FUNCTIONS, not coroutine functions - never `async def`
    for fk, cont in (("module", []), ("instance", ["Cls"]), ("static", ["Cls"]), ("class", ["Cls"])):
        ps = [{"name": "x", "kind": "poskw", "default": None}]
        f = {"name": "legacy_coro", "container": cont, "fkind": fk, "params": ps, "types_coroutine": True, "is_gen": True,
             "traces": [{"args": {"x": INT}, "ret": INT, "yld": STR}]}
        g = {"name": "real_coro", "container": cont, "fkind": fk, "params": ps, "is_async": True, "traces": traces_for(ps)}
        cases.append({"funcs": [f, g], "strategy": "REPLICATE", "k": 0, "family": "c12_generator_based_coroutine"})
        cases.append({"funcs": [dict(f), dict(g)], "strategy": "REPLICATE", "k": 0, "family": "c12_generator_based_coroutine", "via_cli": True})
    # functions below an ordinary functools.wraps decorator (and below classmethod / staticmethod), sync and async
    for n, (fk, cont) in enumerate([("module", []), ("instance", ["Cls"]), ("class", ["Cls"]), ("static", ["Cls"])]):
        for is_async in (False, True):
            ps = [{"name": "x", "kind": "poskw", "default": None}]
            f = {"name": "deco_%d_%d" % (n, is_async), "container": cont, "fkind": fk, "params": ps, "wraps": True, "is_async": is_async,
                 "traces": traces_for(ps)}
            plain = {"name": "plain_%d_%d" % (n, is_async), "container": cont, "fkind": fk, "params": ps, "is_async": is_async,
                     "traces": traces_for(ps)}
            for via in (False, True):
                cases.append({"funcs": [dict(f), dict(plain)], "strategy": "REPLICATE", "k": 0, "family": "c12_functools_wraps_decorated",
                              "via_cli": via})
    # a read-only property whose GETTER sits below a functools.wraps decorator
    for via in (False, True):
        f = {"name": "balance", "container": ["Cls"], "fkind": "property", "params": [], "wraps": True, "traces": [{"args": {}, "ret": INT, "yld": None}]}
        g = {"name": "plain_prop", "container": ["Cls"], "fkind": "property", "params": [], "traces": [{"args": {}, "ret": STR, "yld": None}]}
        cases.append({"funcs": [f, g], "strategy": "REPLICATE", "k": 0, "family": "c12_property_getter_below_functools_wraps", "via_cli": via})
    # a functools.cached_property (no decorator is prescribed in the stub; whatever is written must resolve)
    for via in (False,):      # (not through the store: on this tree a stored trace of such a getter cannot exist - the tracer's lookup
                              # does not reach it - and decoding rejects it)
        f = {"name": "size", "container": ["Cls"], "fkind": "cached", "params": [], "traces": [{"args": {}, "ret": INT, "yld": None}]}
        g = {"name": "other", "container": ["Cls"], "fkind": "instance", "params": [{"name": "a", "kind": "poskw", "default": None}], "traces": traces_for([{"name": "a", "kind": "poskw"}])}
        cases.append({"funcs": [f, g], "strategy": "REPLICATE", "k": 0, "family": "c12_functools_cached_property", "via_cli": via})
    # function and parameter names that START with the name of a module the signature imports (plus one more character),
    # or are spelled exactly like it
    ZA, ZB = T("cls", "zutil.A"), T("cls", "zfoo.Baz")
    for n, (fname, pnames) in enumerate([("zutil_total", ["zutil_count", "zfoo_x"]), ("zfoox", ["zutil", "zfoo"]), ("total", ["zutilities", "zfoo_"]),
                                         ("zutilx", ["a", "zutil1"])]):
        ps = [{"name": pn, "kind": "poskw", "default": None} for pn in pnames]
        f = {"name": fname, "container": [], "fkind": "module", "params": ps,
             "traces": [{"args": {pnames[0]: ZA, pnames[1]: ZB}, "ret": ZA, "yld": None}]}
        m = dict(f, name=fname + "_m", container=["Cls"], fkind="instance")
        cases.append({"funcs": [f, m], "strategy": "REPLICATE", "k": 0, "family": "c12_names_starting_with_an_imported_module_name"})
    # functions whose signatures are equal up to the ORDER of their keyword-only parameters, in one module
    kw = lambda names: [{"name": x, "kind": "kwonly", "default": ("1" if x == "depth" else None)} for x in names]  # noqa: E731
    for fk, cont in (("module", []), ("instance", ["Cls"])):
        fs = [{"name": "box_%d" % j, "container": cont, "fkind": fk, "params": kw(order), "traces": traces_for(kw(order))}
              for j, order in enumerate((["width", "height", "depth"], ["height", "width", "depth"], ["depth", "height", "width"]))]
        cases.append({"funcs": fs, "strategy": "REPLICATE", "k": 0, "family": "c12_keyword_only_order"})
        cases.append({"funcs": list(reversed([dict(x) for x in fs])), "strategy": "REPLICATE", "k": 0, "family": "c12_keyword_only_order"})
    # source-annotated parameters with defaults under every strategy (names, kinds, order and defaults are the real ones)
    for n, ps0 in enumerate(sh[::7]):
        ps = [dict(p, ann=("int" if i % 2 == 0 else None)) for i, p in enumerate(ps0)]
        for strategy in ("OMIT", "IGNORE"):
            f = {"name": "ann_shape_%d" % n, "container": [], "fkind": "module", "params": ps, "ret_ann": "int", "traces": traces_for(ps)}
            cases.append({"funcs": [f], "strategy": strategy, "k": 0, "family": "c12_annotated_shapes_other_strategies", "via_cli": n % 4 == 0})
    # methods declared through SUBCLASSES of classmethod / staticmethod / property
    for n, (fk, ps) in enumerate([(fk, ps) for fk in ("class", "static", "property") for ps in (
            [], [{"name": "x", "kind": "poskw", "default": None}, {"name": "y", "kind": "kwonly", "default": "None"}])
            if not (fk == "property" and ps)]):
        f = {"name": "sub_deco_%d" % n, "container": ["Cls"], "fkind": fk, "params": ps, "deco_sub": True, "traces": traces_for(ps)}
        cases.append({"funcs": [f], "strategy": "REPLICATE", "k": 0, "family": "c12_descriptor_subclasses"})
        cases.append({"funcs": [dict(f)], "strategy": "REPLICATE", "k": 0, "family": "c12_descriptor_subclasses", "via_cli": True})
    # two modules traced in one session, each with a class of the SAME name (methods partly equally named)
    ps1 = [{"name": "a", "kind": "poskw", "default": None}]
    ps2 = [{"name": "a", "kind": "poskw", "default": None}, {"name": "b", "kind": "poskw", "default": "None"}]
    mk = lambda nm, fk, ps: {"name": nm, "container": ["Shared"], "fkind": fk, "params": ps, "traces": traces_for(ps)}  # noqa: E731
    here = [mk("common", "instance", ps1), mk("only_here", "static", ps1)]
    there = [mk("common", "instance", ps2), mk("only_there", "class", ps2)]
    for first in (False, True):
        cases.append({"funcs": here, "other": there, "other_first": first, "strategy": "REPLICATE", "k": 0,
                      "family": "c12_same_class_name_in_two_traced_modules"})
        cases.append({"funcs": there, "other": here, "other_first": first, "strategy": "REPLICATE", "k": 0,
                      "family": "c12_same_class_name_in_two_traced_modules"})
    # only positional-only parameters, long enough to wrap: the trailing `/` must survive the multi-line layout
    for n in range(1, 5):
        ps = [{"name": "positional_only_parameter_number_%d_%s" % (i, "x" * 22), "kind": "posonly", "default": None} for i in range(n + 2)]
        for fk, cont in (("module", []), ("static", ["Cls"])):
            f = {"name": "wrapped_posonly_%d_%s" % (n, fk), "container": cont, "fkind": fk, "params": ps, "traces": traces_for(ps)}
            cases.append({"funcs": [f], "strategy": "REPLICATE", "k": 0, "family": "c12_wrapping_posonly"})
    # two classes whose methods are traced in interleaved order (A.x, B.y, A.z, B.x ...)
    for n in range(20 if tier == "quick" else 300):
        names = ["x", "y", "z", "w"]
        fs = []
        for j in range(rng.randint(3, 6)):
            cls = ["Alpha", "Beta", "Gamma"][j % (2 + n % 2)]
            nm = names[(j + n) % 4] + ("" if j < 4 else "2")
            if any(f["container"] == [cls] and f["name"] == nm for f in fs):
                continue
            ps = [{"name": "a", "kind": "poskw", "default": None}]
            fs.append({"name": nm, "container": [cls], "fkind": "instance", "params": ps, "traces": traces_for(ps)})
        cases.append({"funcs": fs, "strategy": "REPLICATE", "k": 0, "family": "c12_interleaved_classes"})
    # traces taken from VALUES (real get_type, limit k > 0): dicts whose string keys cannot be written as fields of a
    # class-syntax TypedDict - the stub must still be Python
    V = lambda kind, n="", a=(): {"k": kind, "n": n, "a": list(a), "u": []}  # noqa: E731
    vd = lambda *keys: V("dict", "", [V("pair", "", [V("str", k), V("atom", "int")]) for k in keys])  # noqa: E731
    for n, val in enumerate([vd("content-type"), vd("class", "a"), vd("1abc"), vd("a b"), vd(""), vd("a", "b"),
                             V("list", "", [vd("x-y"), vd("x")]), V("tuple", "", [vd("def"), V("atom", "int")]),
                             vd("__a", "_"), vd("None"), vd("True", "a")]):
        for k in (3, 10):
            for fk, cont in (("module", []), ("instance", ["Cls"])):
                ps = [{"name": "d", "kind": "poskw", "default": None}]
                f = {"name": "odd_keys_%d" % n, "container": cont, "fkind": fk, "params": ps,
                     "traces": [{"args": {}, "vals": {"d": val}, "ret": None, "yld": None}]}
                cases.append({"funcs": [f], "strategy": "REPLICATE", "k": k, "family": "c12_dict_keys_that_are_not_identifiers"})
    # parameter names that give odd class-name hints for generated TypedDict classes (`_1` -> `1TypedDict...`, `_`, `a_1`)
    for n, pname in enumerate(["_1", "_", "a_1", "__x", "x9", "none_type", "NoneType", "typing", "typing_x", "none"]):
        for k in (3,):
            ps = [{"name": pname, "kind": "poskw", "default": None}]
            f = {"name": "odd_param_%d" % n, "container": [], "fkind": "module", "params": ps,
                 "traces": [{"args": {}, "vals": {pname: vd("a", "b")}, "ret": None, "yld": None}]}
            cases.append({"funcs": [f], "strategy": "REPLICATE", "k": k, "family": "c12_parameter_names_giving_odd_class_name_hints"})
    # long names force wrapping at 120 columns; classes one and two levels deep
    for n in range(40 if tier == "quick" else 300):
        ps = rng.choice(sh)
        ps = [dict(p, name=p["name"] + "_" + "x" * rng.randint(10, 30)) for p in ps]
        cont = rng.choice([[], ["Cls"], ["Outer", "Inner"]])
        fk = rng.choice(["module"] if not cont else ["instance", "static", "class"])
        if fk in ("instance", "class"):
            ps = [p for p in ps if p["kind"] != "posonly"]
        f = {"name": "long_function_name_%d_%s" % (n, "y" * rng.randint(5, 40)), "container": cont, "fkind": fk, "params": ps,
             "is_async": rng.random() < 0.2}
        f["traces"] = traces_for(ps, ty=T("dict", "", [STR, T("list", "", [INT])]))
        cases.append({"funcs": [f], "strategy": "REPLICATE", "k": 0, "family": "c12_wrapping_nested" if len(cont) == 2 else "c12_wrapping"})
    return cases


SRC_ANNS = [None, "int", "List[int]", "Optional[int]", "'Own'", "ExtId", "zutil.A",
            # string annotations that merely CONTAIN Optional / None somewhere inside
            # (spelled with builtins only: a stub does not import the names used inside a quoted annotation)
            "'dict[str, int | None]'", "'tuple[int, None]'"]


def gen_c13(tier, seed):
    rng = random.Random(seed)
    cases = []
    traced_opts = [None, STR, T("list", "", [STR]), T("cls", "mtfx.shapes.FalsyCls")]     # the last: a class whose truth value is False
    cells = [(a, t, d) for a in SRC_ANNS for t in traced_opts for d in (None, "None", "1")]
    FALSY = T("cls", "mtfx.shapes.FalsyCls")
    rets = [(None, None), (INT, None), (None, INT), (INT, STR), (NONE, STR), (NONE, None), (FALSY, None), (NONE, FALSY)]   # (ret, yld); exception only = (None, None)
    sigs = []
    for c in cells:                                   # one parameter: every cell
        sigs.append([c])
    pairs = list(itertools.product(cells, cells))     # two parameters: positions interact through the signature object
    sigs += [list(p) for p in (pairs if tier != "quick" else rng.sample(pairs, 500))]
    for _ in range(300 if tier == "quick" else 5000):
        sigs.append([rng.choice(cells) for _ in range(3)])
    for n, sig in enumerate(sigs):
        # defaults must be trailing
        sig = sorted(sig, key=lambda c: c[2] is not None)
        params = [{"name": "p%d" % i, "kind": "poskw", "default": d, "ann": a} for i, (a, t, d) in enumerate(sig)]
        targs = {"p%d" % i: t for i, (a, t, d) in enumerate(sig) if t is not None}
        for strategy in ("REPLICATE", "OMIT", "IGNORE"):
            ret, yld = rets[(n + len(strategy)) % len(rets)]
            retann = SRC_ANNS[(n * 3 + len(strategy)) % len(SRC_ANNS)] if n % 2 == 0 else None
            fk, cont = [("module", []), ("instance", ["Cls"]), ("static", ["Cls"]), ("class", ["Cls"])][n % 4]
            f = {"name": "g%d" % n, "container": cont, "fkind": fk, "params": params, "ret_ann": retann,
                 "is_gen": yld is not None, "traces": [{"args": targs, "ret": ret, "yld": yld}]}
            cases.append({"funcs": [f], "strategy": strategy, "k": 0, "family": "c13_matrix"})
            if n % 4 == 0:    # the same cell through `monkeytype stub [--omit-existing-annotations | --ignore-existing-annotations]`
                cases.append({"funcs": [f], "strategy": strategy, "k": 0, "family": "c13_matrix_via_cli", "via_cli": True})
                if n % 8 == 0:    # ... combined with the other stub options
                    cases.append({"funcs": [f], "strategy": strategy, "k": 0, "family": "c13_matrix_via_cli", "via_cli": True,
                                  "cli_extra": ["--disable-type-rewriting"]})
                    cases.append({"funcs": [f], "strategy": strategy, "k": 0, "family": "c13_matrix_via_cli", "via_cli": True,
                                  "cli_extra": ["--limit", "50"]})
    # the cell in a parameter of another kind: positional-only, keyword-only, *args, **kwargs (the variadics are never traced)
    for kind in ("posonly", "kwonly", "varpos", "varkw"):
        for a in SRC_ANNS:
            for t in ([None] if kind.startswith("var") else [None, STR]):
                for d in ((None,) if kind.startswith("var") else (None, "None")):
                    n += 1
                    ps = [{"name": "p0", "kind": "poskw", "default": None}, {"name": "q", "kind": kind, "default": d, "ann": a}]
                    if kind == "posonly":
                        ps = [ps[1], dict(ps[0], default=d)]      # a default after a defaulted positional-only one
                    targs = dict({"p0": INT}, **({"q": t} if t is not None else {}))
                    fk, cont = [("module", []), ("instance", ["Cls"]), ("static", ["Cls"])][n % 3]
                    for strategy in ("REPLICATE", "OMIT", "IGNORE"):
                        f = {"name": "k%d" % n, "container": cont, "fkind": fk, "params": ps, "ret_ann": None,
                             "traces": [{"args": dict(targs), "ret": INT, "yld": None}]}
                        cases.append({"funcs": [f], "strategy": strategy, "k": 0, "family": "c13_matrix_other_parameter_kinds",
                                      "via_cli": n % 5 == 0})
    # functions that are NOT methods (module level, static) whose first parameter is called like a receiver
    for n, first in enumerate(("self", "cls", "mcs")):
        for fk, cont in (("module", []), ("static", ["Cls"])):
            for ann in (None, "str"):
                ps = [{"name": first, "kind": "poskw", "default": None, "ann": ann}, {"name": "n", "kind": "poskw", "default": "None"}]
                for strategy in ("REPLICATE", "OMIT", "IGNORE"):
                    f = {"name": "named_like_a_receiver", "container": cont, "fkind": fk, "params": [dict(p) for p in ps], "ret_ann": None,
                         "traces": [{"args": {first: INT, "n": INT}, "ret": INT, "yld": None}]}
                    cases.append({"funcs": [f], "strategy": strategy, "k": 0, "family": "c13_first_parameter_named_like_a_receiver",
                                  "via_cli": n == 0})
    # several traces of ONE function that differ in one column only (what it yielded / returned / one argument)
    pa2 = [{"name": "a", "kind": "poskw", "default": None}, {"name": "b", "kind": "poskw", "default": "None"}]
    BYTES = T("cls", "bytes")
    for n, (t1, t2) in enumerate([(INT, STR), (STR, NONE), (T("list", "", [INT]), INT), (INT, BYTES)]):
        variants = [("yld", [{"args": {"a": INT, "b": INT}, "ret": None, "yld": t1}, {"args": {"a": INT, "b": INT}, "ret": None, "yld": t2}], True),
                    ("ret_of_generator", [{"args": {"a": INT, "b": INT}, "ret": t1, "yld": INT}, {"args": {"a": INT, "b": INT}, "ret": t2, "yld": INT}], True),
                    ("ret", [{"args": {"a": INT, "b": INT}, "ret": t1, "yld": None}, {"args": {"a": INT, "b": INT}, "ret": t2, "yld": None}], False),
                    ("arg", [{"args": {"a": t1, "b": INT}, "ret": INT, "yld": None}, {"args": {"a": t2, "b": INT}, "ret": INT, "yld": None}], False)]
        for label, trs, gen in variants:
            for via in (False, True):
                f = {"name": "onecol", "container": [], "fkind": "module", "params": [dict(p) for p in pa2], "ret_ann": None, "is_gen": gen, "traces": trs}
                cases.append({"funcs": [f], "strategy": "REPLICATE", "k": 0, "family": "c13_traces_differing_in_one_column", "via_cli": via})
    # source RETURN annotations of the shapes the shipped rewriters look for, through the command line with the DEFAULT rewriter:
    # a source annotation is kept as written, whatever a rewriter would make of a traced type of that shape
    for n, ra in enumerate(["Generator[int, None, None]", "Union[Dict[str, int], Dict[str, str]]",
                            "Union[int, str, float, bytes, complex, bytearray]", "Union[List[Any], List[int]]",
                            "Union[Tuple[int], Tuple[int, int], Tuple[int, int, int], Tuple[int, int, int, int], Tuple[()], Tuple[int, int, int, int, int]]"]):
        for pann in (None, ra):
            f = {"name": "keeps", "container": [], "fkind": "module", "params": [{"name": "a", "kind": "poskw", "default": None, "ann": pann}],
                 "ret_ann": ra, "is_gen": ra.startswith("Generator"), "traces": [{"args": {"a": INT}, "ret": None if ra.startswith("Generator") else INT,
                                                                                 "yld": INT if ra.startswith("Generator") else None}]}
            for strategy in ("REPLICATE", "OMIT"):
                cases.append({"funcs": [f], "strategy": strategy, "k": 0, "family": "c13_source_annotations_of_rewriter_shapes_default_rewriter",
                              "via_cli": True, "rw": "DEFAULT"})
    # two functions whose traces arrive interleaved (f, g, f, g ...), the LAST trace of each knowing less than an earlier one
    # (the call raised: no return type; a defaulted argument was not passed)
    for n in range(6 if tier == "quick" else 40):
        pa = [{"name": "a", "kind": "poskw", "default": None}, {"name": "b", "kind": "poskw", "default": "None"}]
        mkf = lambda nm: {"name": nm, "container": [], "fkind": "module", "params": [dict(p) for p in pa],  # noqa: E731
                          "traces": [{"args": {"a": STR, "b": INT}, "ret": INT, "yld": None},
                                     {"args": {"a": T("cls", "bytes"), "b": INT}, "ret": STR, "yld": None},
                                     {"args": {"a": T("cls", "bytes")}, "ret": None, "yld": None}][:2 + n % 2]}
        for strategy in ("REPLICATE", "IGNORE"):
            cases.append({"funcs": [mkf("parse"), mkf("render"), mkf("load")][:2 + n % 2], "strategy": strategy, "k": 0, "interleave": True,
                          "family": "c13_interleaved_traces", "via_cli": n % 3 == 0})
    # the same qualified name with another kind in a second module traced in the same session (both orders)
    p1 = [{"name": "path", "kind": "poskw", "default": None}, {"name": "mode", "kind": "poskw", "default": "None"}]
    for kinds in (("static", "instance"), ("instance", "static"), ("class", "static"), ("static", "class")):
        mk2 = lambda fk: {"name": "open", "container": ["Backend"], "fkind": fk, "params": [dict(p) for p in p1],  # noqa: E731
                          "traces": [{"args": {"path": T("cls", "bytes"), "mode": STR}, "ret": T("list", "", [T("cls", "bytes")]), "yld": None}]}
        for first in (False, True):
            for strategy in ("REPLICATE", "OMIT", "IGNORE"):
                cases.append({"funcs": [mk2(kinds[0])], "other": [mk2(kinds[1])], "other_first": first, "strategy": strategy, "k": 0,
                              "family": "c13_same_qualname_other_kind_in_second_module"})
    # an annotated receiver: under OMIT it must carry no annotation like every other annotated position
    for n, (fk, recv_ann) in enumerate([("instance", "'Cls'"), ("class", "type"), ("instance", "Any")] * (2 if tier == "quick" else 20)):
        params = [{"name": "p0", "kind": "poskw", "default": None, "ann": "int" if n % 2 else None}]
        f = {"name": "r%d" % n, "container": ["Cls"], "fkind": fk, "params": params, "recv_ann": recv_ann, "ret_ann": "int" if n % 3 == 0 else None,
             "traces": [{"args": {"p0": STR}, "ret": STR, "yld": None}]}
        cases.append({"funcs": [f], "strategy": "OMIT", "k": 0, "family": "c13_annotated_receiver_omit"})
    # generators traced several times with different endings (falls off the end / returns a value / yields other types)
    endings = [(None, INT), (NONE, INT), (STR, INT), (INT, STR)]
    for n, combo in enumerate(itertools.combinations(endings, 2)):
        for strategy in ("REPLICATE", "IGNORE"):
            f = {"name": "gen%d" % n, "container": [], "fkind": "module", "params": [{"name": "a", "kind": "poskw", "default": None}],
                 "is_gen": True, "ret_ann": "int" if strategy == "IGNORE" else None,
                 "traces": [{"args": {"a": INT}, "ret": r, "yld": y} for r, y in combo]}
            cases.append({"funcs": [f], "strategy": strategy, "k": 0, "family": "c13_generator_several_traces"})
    return cases


def subst_marker(t, old, new):
    if t["k"] == "cls" and t["n"] == old:
        return T("cls", new)
    return dict(t, a=[subst_marker(x, old, new) for x in t["a"]], u=[subst_marker(x, old, new) for x in t["u"]])


def gen_c11(tier, seed, env_text):
    rng = random.Random(seed)
    ctx = universe.export("MTRewriteExport", "ctx1", ["MTValues", "MTTypeUniverse"], env_text)
    ctxtd = universe.export("MTRewriteExport", "ctxtd", ["MTValues", "MTTypeUniverse"], env_text)
    cases = []
    pool = ctx if tier != "quick" else rng.sample(ctx, min(len(ctx), 1500))

    def add(ta, tb, tr, ty, k, fam, fname="func", fk="module", cont=()):
        params = [{"name": "a", "kind": "poskw", "default": None}, {"name": "b", "kind": "poskw", "default": "None"}]
        f = {"name": fname, "container": list(cont), "fkind": fk, "params": params, "is_gen": ty is not None,
             "traces": [{"args": {"a": ta, "b": tb}, "ret": tr, "yld": ty}]}
        cases.append({"funcs": [f], "strategy": "REPLICATE", "k": k, "family": fam})
    for t in pool:                       # every type alone, then pairs co-occurring in one signature
        add(t, INT, t, None, 0, "c11_single")
    for _ in range(1500 if tier == "quick" else 30000):
        add(rng.choice(ctx), rng.choice(ctx), rng.choice(ctx), rng.choice([None, rng.choice(ctx)]), 0, "c11_cooccurring")
    for t in ctxtd:
        fk, cont = rng.choice([("module", ()), ("instance", ("Cls",)), ("static", ("Cls",))])
        add(t, rng.choice(ctxtd), t, t if rng.random() < 0.3 else None, 3, "c11_typeddict", fk=fk, cont=cont)
    for t in rng.sample(ctxtd, min(len(ctxtd), 40)):      # generators that only yield (Iterator[...]) TypedDict-bearing types
        add(INT, INT, None, t, 3, "c11_typeddict_yield_only")
        add(INT, INT, T("cls", "NoneType"), T("list", "", [t]), 3, "c11_typeddict_yield_only")
    n0 = len(cases)
    storable = [t for t in ctx if "tuplevar" not in kinds_in(t, set())]     # Tuple[T, ...] cannot be stored (C08 finding)
    for t in rng.sample(storable, min(len(storable), 200)) + rng.sample(ctxtd, min(len(ctxtd), 60)):    # through the store and `monkeytype stub`
        add(t, rng.choice(storable), rng.choice(storable), None, 3, "c11_via_cli")
    for c in cases[n0:]:
        c["via_cli"] = True
    # a TypedDict one of whose fields holds TypedDicts inside a container (each needs a class of its own)
    inner = T("td", "", [], [T("req", "sku", [STR]), T("req", "qty", [INT])])
    inner2 = T("td", "", [], [T("req", "w", [INT])])
    holders = [lambda x: T("list", "", [x]), lambda x: T("set", "", [x]), lambda x: T("tuple", "", [x, INT]),
               lambda x: T("tuple", "", [INT, x]), lambda x: T("dict", "", [STR, x]), lambda x: T("union", "", [], [x, T("cls", "NoneType")]),
               lambda x: T("iterator", "", [x]), lambda x: T("list", "", [T("list", "", [x])]),
               lambda x: T("tuple", "", [x, inner2])]
    for n, h in enumerate(holders):
        outer = T("td", "", [], [T("req", "id", [INT]), T("req", "items", [h(inner)])])
        fk, cont = [("module", ()), ("instance", ("Cls",))][n % 2]
        add(outer, INT, None, None, 3, "c11_typeddict_in_container_field", fk=fk, cont=cont)
        add(INT, outer, h(outer), None, 3, "c11_typeddict_in_container_field", fk=fk, cont=cont)
    # a function WITHOUT parameters returning a class of its own module, next to functions that use the same class
    # (same module, and another module traced in the same session), in both processing orders
    OWN, OOWN = T("cls", "$OWN"), T("cls", "$OTHER_OWN")
    p_a = [{"name": "a", "kind": "poskw", "default": None}]
    for first in (False, True):
        for use_ty in (OWN, T("list", "", [OWN]), T("union", "", [], [OWN, T("cls", "NoneType")])):
            mk0 = {"name": "make", "container": [], "fkind": "module", "params": [], "traces": [{"args": {}, "ret": use_ty, "yld": None}]}
            use = {"name": "use", "container": [], "fkind": "module", "params": p_a, "traces": [{"args": {"a": use_ty}, "ret": use_ty, "yld": None}]}
            meth = {"name": "build", "container": ["Cls"], "fkind": "static", "params": [], "traces": [{"args": {}, "ret": use_ty, "yld": None}]}
            cases.append({"funcs": [mk0, use, meth] if first else [use, meth, mk0], "strategy": "REPLICATE", "k": 0,
                          "family": "c11_parameterless_function_returning_own_class"})
            # the other module has the parameterless function; this module uses the other module's class
            o_mk = {"name": "make", "container": [], "fkind": "module", "params": [],
                    "traces": [{"args": {}, "ret": subst_marker(use_ty, "$OWN", "$OWN"), "yld": None}]}
            use2 = {"name": "use", "container": [], "fkind": "module", "params": p_a,
                    "traces": [{"args": {"a": subst_marker(use_ty, "$OWN", "$OTHER_OWN")}, "ret": None, "yld": None}]}
            cases.append({"funcs": [use2], "other": [o_mk], "other_first": first, "strategy": "REPLICATE", "k": 0,
                          "family": "c11_parameterless_function_returning_own_class"})
    cases.extend(render_model_cases(tier))
    # TypedDict-bearing traces of functions that already HAVE some annotation in the source (the annotated position keeps it,
    # the others get their generated classes - all of them, with everything their fields mention)
    for n, h in enumerate(holders):
        outer = T("td", "", [], [T("req", "id", [INT]), T("req", "items", [h(inner)])])
        deep = T("td", "", [], [T("req", "cfg", [T("td", "", [], [T("req", "limits", [inner2]), T("req", "who", [T("cls", "zutil.A")])])])])
        for ty in (outer, deep):
            for strategy in ("REPLICATE", "OMIT"):
                ps = [{"name": "a", "kind": "poskw", "default": None}, {"name": "b", "kind": "poskw", "default": "None", "ann": "int"}]
                f = {"name": "func", "container": [], "fkind": "module", "params": ps, "ret_ann": "int" if n % 2 else None,
                     "traces": [{"args": {"a": ty, "b": INT}, "ret": ty if n % 3 == 0 else INT, "yld": None}]}
                cases.append({"funcs": [f], "strategy": strategy, "k": 3, "family": "c11_typeddict_next_to_source_annotations"})
    # modules INSIDE packages using classes of the enclosing packages, of a sibling module and of their own
    pk = [T("cls", "$PKG"), T("cls", "$SUBPKG"), T("cls", "$PKG_INNER"), T("cls", "zpkg.zutil.B"), T("cls", "$OWN")]
    for n, (x, y) in enumerate(itertools.permutations(pk, 2)):
        ps = [{"name": "a", "kind": "poskw", "default": None}, {"name": "b", "kind": "poskw", "default": "None"}]
        f = {"name": "func", "container": [] if n % 2 else ["Cls"], "fkind": "module" if n % 2 else "instance", "params": ps, "in_package": True,
             "traces": [{"args": {"a": x, "b": y}, "ret": T("list", "", [x]) if n % 3 else None, "yld": None}]}
        cases.append({"funcs": [f], "strategy": "REPLICATE", "k": 0, "family": "c11_module_inside_packages"})
        tdp = T("td", "", [], [T("req", "owner", [x]), T("req", "n", [INT])])
        f2 = dict(f, traces=[{"args": {"a": tdp, "b": y}, "ret": None, "yld": None}])
        cases.append({"funcs": [f2], "strategy": "REPLICATE", "k": 3, "family": "c11_module_inside_packages"})
    # parameter / field / function names whose class-name hint starts like a word the renderer rewrites (NoneType, typing)
    tdv = T("td", "", [], [T("req", "a", [INT]), T("req", "b", [STR])])
    for pname in ("none_type", "NoneType", "noneType", "typing", "typing_x", "none", "nonetype_of"):
        ps = [{"name": pname, "kind": "poskw", "default": None}]
        f = {"name": "func", "container": [], "fkind": "module", "params": ps, "traces": [{"args": {pname: tdv}, "ret": None, "yld": None}]}
        cases.append({"funcs": [f], "strategy": "REPLICATE", "k": 3, "family": "c11_names_whose_class_name_hint_starts_like_a_rewritten_word"})
        g = {"name": pname, "container": [], "fkind": "module", "params": [{"name": "x", "kind": "poskw", "default": None}],
             "traces": [{"args": {"x": T("td", "", [], [T("req", pname, [tdv])])}, "ret": tdv, "yld": None}]}
        cases.append({"funcs": [g], "strategy": "REPLICATE", "k": 3, "family": "c11_names_whose_class_name_hint_starts_like_a_rewritten_word"})
    # a module whose ONLY need for a typing name comes from one construct (Optional of an `Any` annotation with a None default, ...)
    for ann, dflt in (("Any", "None"), ("List[Any]", "None"), ("Any", "1"), ("Dict[str, Any]", "None"), ("Tuple[Any, ...]", "None")):
        ps = [{"name": "a", "kind": "poskw", "default": None}, {"name": "b", "kind": "poskw", "default": dflt, "ann": ann}]
        f = {"name": "func", "container": [], "fkind": "module", "params": ps, "traces": [{"args": {"a": INT}, "ret": None, "yld": None}]}
        cases.append({"funcs": [f], "strategy": "REPLICATE", "k": 0, "family": "c11_single_need_for_a_typing_name"})
        f3 = dict(f, params=[ps[1]], traces=[{"args": {}, "ret": INT, "yld": None}])
        cases.append({"funcs": [f3], "strategy": "REPLICATE", "k": 0, "family": "c11_single_need_for_a_typing_name", "via_cli": True})
    # a functools.cached_property getter: whatever decorator the stub writes for it must be a name the stub provides
    cp = {"name": "size", "container": ["Cls"], "fkind": "cached", "params": [], "traces": [{"args": {}, "ret": INT, "yld": None}]}
    cases.append({"funcs": [cp], "strategy": "REPLICATE", "k": 0, "family": "c11_functools_cached_property"})
    cases.append({"funcs": [dict(cp, traces=[{"args": {}, "ret": T("cls", "zutil.A"), "yld": None}])], "strategy": "REPLICATE", "k": 0,
                  "family": "c11_functools_cached_property"})
    # replicated source annotations that are strings / NewTypes / classes of other modules (no trace for that position)
    for ann in ("'Own'", "ExtId", "zutil.A", "Optional['Own']", "List[ExtId]", "zutil.Reg.Slot[int]", "List[zutil.Reg.Slot[zutil.A]]",
                # a user-defined generic parameterised with TYPING constructs (the outermost type is not typing's)
                "zutil.Reg.Slot[List[int]]", "zutil.Reg.Slot[Optional[zutil.A]]", "zutil.Reg.Slot[Dict[str, List[int]]]",
                "zutil.Outer.Inner", "Dict[str, zutil.Outer.Inner]",
                # PEP 585 / PEP 604 spellings in the source
                "list[zutil.A]", "zutil.A | None", "dict[str, zutil.Outer.Inner]", "list[int] | None", "tuple[zutil.A, ...]"):
        f = {"name": "ann_" + str(abs(hash(ann)) % 1000), "container": [], "fkind": "module",
             "params": [{"name": "a", "kind": "poskw", "default": None, "ann": ann}, {"name": "b", "kind": "poskw", "default": None}],
             "ret_ann": ann, "traces": [{"args": {"b": INT}, "ret": None, "yld": None}]}
        cases.append({"funcs": [f], "strategy": "REPLICATE", "k": 0, "family": "c11_replicated_annotation"})
    # class-name-hint collisions: same parameter name in two functions with different TypedDict shapes
    td1 = T("td", "", [], [T("req", "a", [INT])])
    td2 = T("td", "", [], [T("req", "b", [STR])])
    for (n1, n2) in (("a", "a"), ("a_b", "aB")):
        f1 = {"name": "h1", "container": [], "fkind": "module", "params": [{"name": n1, "kind": "poskw", "default": None}],
              "traces": [{"args": {n1: td1}, "ret": None, "yld": None}]}
        f2 = {"name": "h2", "container": [], "fkind": "module", "params": [{"name": n2, "kind": "poskw", "default": None}],
              "traces": [{"args": {n2: td2}, "ret": None, "yld": None}]}
        cases.append({"funcs": [f1, f2], "strategy": "REPLICATE", "k": 3, "family": "c11_hint_collision"})
    f3 = {"name": "same", "container": [], "fkind": "module", "params": [{"name": "same", "kind": "poskw", "default": None}],
          "traces": [{"args": {"same": td1}, "ret": td2, "yld": None}]}
    cases.append({"funcs": [f3], "strategy": "REPLICATE", "k": 3, "family": "c11_hint_collision"})
    return cases


def render_model_cfg(uname, devs, emit):
    return ("SPECIFICATION Spec\nCONSTANTS\n  Own <- OwnT\n  ModOrder <- ModOrderT\n  MaxSig = 3\n  UName = \"%s\"\n" % uname
            + "".join("  %s = %s\n" % (k, "TRUE" if v else "FALSE") for k, v in sorted(devs.items()))
            + ("INVARIANT Emit\n" if emit else "INVARIANT Inv_SelfContained\nINVARIANT Inv_DenotesSame\n") + "CHECK_DEADLOCK FALSE\n")


RENDER_DEVS = ("Dev_StripAnyOrder", "Dev_LastImportWins", "Dev_ChainedStrip")
_RENDER = {}


def render_model():
    """MTRender (the naming rules of a module stub over dotted names): (1) the DESIGN - deviations off, a universe
    without two classes of one outermost name - satisfies SelfContained and DenotesSame for every signature of <= 3
    classes; (2) the model AS THE CODE IS (model_deviations.json) over the whole collision universe exports every
    signature with its predicted verdicts."""
    if _RENDER:
        return _RENDER
    design = tlc.run_tlc("MTRenderMC", cfg_text=render_model_cfg("distinct", {d: False for d in RENDER_DEVS}, False), workers=2, timeout=600)
    tlc.check_ok(design, "MTRenderMC")
    if design.invariant_violated or design.property_violated:
        raise tlc.TLCFailure("MTRenderMC: the design violates C11\n" + design.out[-1500:])
    code = tlc.run_tlc("MTRenderMC", cfg_text=render_model_cfg("all", core.model_deviations(RENDER_DEVS), True), workers=1, timeout=600)
    tlc.check_ok(code, "MTRenderMC")
    sigs = []
    for line in code.out.splitlines():
        if line.startswith('<<"H", '):
            sigs.append(json.loads(json.loads(line[len('<<"H", '):-2])))
    _RENDER.update(design=design, code=code, sigs=sigs)
    return _RENDER


def render_model_cases(tier):
    """Generated modules for the signatures TLC exports from MTRenderMC: each class of the signature is the traced type
    of one parameter (and of the return value, in rotation).  Where the model says the outcome depends on the order in
    which equally long module names are met, every order of the parameters is a case of its own."""
    cases = []
    for n, sg in enumerate(render_model()["sigs"]):
        classes = sorted(sg["sig"], key=lambda c: (c["m"], c["q"]))
        pr = sg["pred"]
        order_dependent = (pr["sc"], pr["ds"]) != (pr["sc1"], pr["ds1"])
        perms = list(itertools.permutations(classes)) if order_dependent or tier != "quick" else [classes[n % len(classes):] + classes[:n % len(classes)]]

        def ty(c):
            name = ".".join(c["m"] + c["q"])
            return T("cls", {"own.Own": "$OWN", "own.Outer.Inner": "$OWN_INNER"}.get(name, name))
        for k, perm in enumerate(perms):
            params = [{"name": "abc"[i], "kind": "poskw", "default": None} for i in range(len(perm))]
            f = {"name": "func", "container": [], "fkind": "module", "params": params, "own_outer": True,
                 "traces": [{"args": {"abc"[i]: ty(c) for i, c in enumerate(perm)}, "ret": ty(perm[0]) if k % 2 == 0 else None, "yld": None}]}
            cases.append({"funcs": [f], "strategy": "REPLICATE", "k": 0, "family": "c11_render_model", "pred": pr, "sig_no": n})
    return cases


CLAUSES = {"C11": {"SelfContained", "DenotesSame"},
           "C12": {"Parses", "ExactlyTraced", "Placed", "Decorated", "MirrorsSignature", "ReceiverBare"},
           # (DenotesSame = an unannotated traced position carries something else than the traced type: C11's clause and C13's)
           "C13": {"AnnotationMatrix", "GeneratorReturn", "DenotesSame"}}


def kinds_in(t, acc):
    acc.add(t["k"])
    for x in t["a"] + t["u"]:
        kinds_in(x, acc)
    return acc


def signature(pid, clause, rec, case):
    sig = {"clause": clause, "family": case["family"]}
    if clause == "Parses":
        sig["nested_class"] = any(len(f["container"]) > 1 for f in case["funcs"])
        sig["err"] = rec.get("err", "NONE")
    if clause in ("SelfContained", "DenotesSame"):
        unres = set()
        mods = set()
        for f in rec["funcs"]:
            for c in f["cells"]:
                _collect_unres(c["got"], unres)
                for t in (c["traced"], c["src"]):
                    _collect_mods(t, mods)
            _collect_unres(f["gotret"], unres)
            for t in (f["tret"], f["tyld"], f["srcret"]):
                _collect_mods(t, mods)
        names = {}
        for t in _all_types(rec):
            _collect_names(t, names)
        dup_names = any(len(v) > 1 for v in names.values())
        # ... the typing module counts: a class called List / Union next to `from typing import List`
        import re as _re
        m = _re.search(r"^from typing import \(([^)]*)\)", rec.get("text", ""), _re.M) or \
            _re.search(r"^from typing import ([^(\n]+)$", rec.get("text", ""), _re.M)
        typing_names = {x.strip() for x in _re.split(r"[,\n]", m.group(1)) if x.strip()} if m else set()
        if any(n in typing_names and mods_ - {"typing"} for n, mods_ in names.items()):
            dup_names = True
        if {"monkeytype", "DUMMY_NAME"} & (set(rec["unres_sig"]) | set(rec["unres_td"])):
            cause = "typeddict_not_replaced_below_a_generic_the_rewriter_does_not_visit"
        elif rec["unres_td"]:
            cause = "typeddict_field_annotation_does_not_resolve"
        elif "newtype" in mods and rec["unres_sig"]:
            cause = "replicated_newtype_annotation_not_imported"
        elif rec["unres_sig"] and any(_modern(p.get("ann")) or _modern(f.get("ret_ann")) for f in case["funcs"] for p in f["params"] + [{}]):
            cause = "replicated_pep585_or_pep604_annotation_not_imported"
        elif rec.get("deco_unres"):
            cause = "decorator_name_not_provided"
        elif not rec["tdok"]:
            cause = "typeddict_base_not_provided"
        elif not rec["unres_sig"] and dup_names:
            cause = "same_class_name_imported_from_two_modules"
        elif rec.get("dup_td") and family_is_collision(case):
            cause = "typeddict_class_name_hint_collision"
        elif rec.get("dup_td"):
            cause = "typeddict_classes_collide_although_their_name_hints_differ"
        else:
            cause = "other"
        sig["cause"] = cause
        if cause == "other":
            import re
            gen = lambda x: re.sub(r"mtg_\d+_\d+", "mtg", x)  # noqa: E731   (generated module names differ per process)
            sig["unresolved"] = sorted({gen(x) for x in unres})[:3]
            sig["modules"] = sorted({gen(x) for x in mods})
    return sig


def _modern(ann):
    """Is this source annotation spelled with a builtin generic (PEP 585) or with `|` (PEP 604)?"""
    import re
    return bool(ann) and bool(re.search(r"\b(list|dict|tuple|set|frozenset|type)\[| \| ", ann))


def _pascal(sx):
    import re
    return "".join(a[0].upper() + a[1:] for a in re.split("([^a-zA-Z0-9])", sx) if a.isalnum())


def _td_hints(t, hint, acc):
    """Name hints the documented naming rule gives to the anonymous TypedDicts inside type t (hint = parameter /
    field name; container positions after the first get a numeric suffix)."""
    if t["k"] == "td":
        acc.append(_pascal(hint))
        for f in t["u"]:
            _td_hints(f["a"][0], f["n"], acc)
        return
    kids = t["a"] if t["k"] != "union" else sorted(t["u"], key=absmodel.canon)
    for i, x in enumerate(kids):
        _td_hints(x, hint + ("" if i == 0 else str(i + 1)), acc)


def family_is_collision(case):
    """Do two TypedDicts of this case get the same class name by the naming rule itself (same parameter name in two
    functions, names equal after pascal-casing, a parameter named like its function, a field named like its parameter)?"""
    names = []
    for f in case["funcs"]:
        q = "_".join(f["container"] + [f["name"]])
        for tr in f.get("traces") or []:
            for n, a in tr["args"].items():
                _td_hints(a, n, names)
            if tr.get("ret"):
                _td_hints(tr["ret"], q, names)
            if tr.get("yld"):
                _td_hints(tr["yld"], q + "Yield", names)
    return len(set(names)) < len(names)


def _all_types(rec):
    for f in rec["funcs"]:
        for c in f["cells"]:
            yield c["traced"]
            yield c["src"]
        yield f["tret"]
        yield f["tyld"]
        yield f["srcret"]


def _collect_names(t, acc):
    if t["k"] == "cls" and "." in t["n"]:
        mq = absmodel.TABLE.modqn.get(t["n"])
        mod, name = mq.split(":", 1) if mq else t["n"].split(".", 1)
        acc.setdefault(name.split(".")[0], set()).add(mod)
    for x in t["a"] + t["u"]:
        _collect_names(x, acc)


def _collect_unres(t, acc):
    if t["k"] == "unresolved":
        acc.add(t["n"])
    for x in t["a"] + t["u"]:
        _collect_unres(x, acc)


def _collect_mods(t, acc):
    if t["k"] == "newtype":
        acc.add("newtype")
    if t["k"] == "cls" and "." in t["n"]:
        acc.add(t["n"].rsplit(".", 1)[0])
    for x in t["a"] + t["u"]:
        _collect_mods(x, acc)


def main(pid, tier, seed, replay=None):
    core.use_repo()
    envgen.load_fixture_classes()
    for m in ("zutil", "zpkg", "zpkg.zutil", "zfoo", "barzfoo", "zfoo_v2", "ztarget", "zmytyping", "_zledger", "mtfx.lookalikes"):
        mod = importlib.import_module(m)
        for v in vars(mod).values():
            if isinstance(v, type):
                absmodel.TABLE.name(v)
                for inner in vars(v).values():
                    if isinstance(inner, type):
                        absmodel.TABLE.name(inner)
    env_text = envgen.mtenv_text()
    run = core.Run(pid, tier, seed)
    mc = None
    if replay:
        with open(replay) as fh:
            cases = [json.load(fh)["case"]]
    else:
        cases = {"C11": lambda: gen_c11(tier, seed, env_text), "C12": lambda: gen_c12(tier, seed),
                 "C13": lambda: gen_c13(tier, seed)}[pid]()
        if pid == "C13":
            mc = tlc.run_tlc("MTSignatureMC", workers=8, timeout=600, extra_files={"MTEnv.tla": env_text})
            tlc.check_ok(mc, "MTSignatureMC")
            if mc.property_violated or mc.invariant_violated:
                raise tlc.TLCFailure("MTSignatureMC: I => P violated\n" + mc.out[-1500:])
    for i, c in enumerate(cases):
        c["tid"] = i + 1
    records = run_cases(cases)
    env_text = envgen.mtenv_text()
    by_tid = {r["tid"]: r for r in records}
    case_by = {c["tid"]: c for c in cases}
    slim = [{k: v for k, v in r.items() if k not in ("text", "err", "unres_sig", "unres_td", "dup_td", "deco_unres")} for r in records]
    verdicts, states, trans, wall = tlc.validate_shards("MTStubTrace", "MTInferTrace.cfg", slim, extra_files={"MTEnv.tla": env_text})
    mine = CLAUSES[pid]
    for v in verdicts:
        rec, case = by_tid[v["tid"]], case_by[v["tid"]]
        for clause in v.get("viol", []):
            if clause in mine:
                run.violation(signature(pid, clause, rec, case), {k: case[k] for k in ("funcs", "strategy", "k", "family")})
    if pid == "C11" and not replay:     # I-layer comparison: MTRender's predictions against what the real stub did
        got = {v["tid"]: set(v.get("viol", [])) for v in verdicts}
        per_sig = {}
        for c in cases:
            if c["family"] == "c11_render_model":
                g = got.get(c["tid"], set())
                per_sig.setdefault(c["sig_no"], [c, []])[1].append(("SelfContained" not in g, "DenotesSame" not in g))
        for c, outs in per_sig.values():
            pr = c["pred"]
            ok = True
            for i, a in enumerate(("sc", "ds")):
                if pr[a]:                     # holds in every order the model allows: held in every case
                    ok = ok and all(o[i] for o in outs)
                elif not pr[a + "1"]:         # holds in no order: failed in every case
                    ok = ok and not any(o[i] for o in outs)
                else:                         # depends on the order: all parameter orders were run, one of them fails
                    ok = ok and not all(o[i] for o in outs)
            if not ok:
                run.drift += 1
                run.notes.append({"drift": sorted(a["n"] for a in c["funcs"][0]["traces"][0]["args"].values()), "pred": pr, "got": sorted(set(outs))})
    fams = {}
    for c in cases:
        fams[c["family"]] = fams.get(c["family"], 0) + 1
    ex = records[len(records) // 2]
    cov = {
        "states": (mc.distinct if mc else 0) + states, "transitions": (mc.generated if mc else 0) + trans,
        "traces_validated_against_impl": len(records),
        "evaluations": len(records),
        "distinct_nontrivial": len({json.dumps(case_by[r["tid"]]["funcs"], sort_keys=True) + case_by[r["tid"]]["strategy"]
                                    for r in records if r["funcs"]}),
        "rule": "one trace = one generated module (source text written to disk and imported), real CallTraces for a subset of its "
                "functions, the real build_module_stubs_from_traces(...).render(); the stub text is parsed with ast and every "
                "annotation is evaluated using only the names the stub's imports and class stubs provide (plus builtins and the "
                "module's own classes); non-trivial = at least one traced function rendered; distinct by (module spec, strategy)",
        "samples": [core.trim({"stub": ex["text"], "funcs": ex["funcs"][:1]}, 2500)],
        "plan": [{"family": k, "cases": v} for k, v in sorted(fams.items())],
        "mc": None if mc is None else {"spec": "MTSignatureMC: every cell annotated? x traced? x strategy x None-default x receiver",
                                       "distinct_states": mc.distinct, "states_generated": mc.generated},
        "trace_validation": {"spec": "MTStubTrace", "tlc_states": states, "wall_s": round(wall, 1)},
        "clauses_decided": sorted(mine),
        "exhaustive": False,
    }
    if pid == "C11":
        run.level = "translation_validation"
        if not replay:
            rm = render_model()
            cov["render_model"] = {"spec": "MTRender / MTRenderMC: naming rules over dotted names; design (deviations off, distinct "
                                           "outermost names) model-checked for SelfContained and DenotesSame; every signature of 2..3 "
                                           "classes of the collision universe exported with predicted verdicts and replayed",
                                   "design_distinct_states": rm["design"].distinct, "signatures_exported": len(rm["sigs"]),
                                   "predicted_violations": sum(1 for x in rm["sigs"] if not (x["pred"]["sc"] and x["pred"]["ds"])),
                                   "drift_examples": [n for n in run.notes if isinstance(n, dict) and "drift" in n][:5]}
            cov["states"] += rm["design"].distinct + rm["code"].distinct
            cov["transitions"] += rm["design"].generated + rm["code"].generated
        cov["programs"] = len(records)
        cov["disagreements_checked"] = len(verdicts)
    return run.finish(cov)
