"""Specification growth beyond the listed properties: the CLI surface (list-modules, stub with a qualified-name
prefix, --limit, --sample-count) observed on constructed stores and validated by TLC against MTCli.
Mismatches are reported as EXTENDED-SPEC-MISMATCH and never change a check's exit status."""
import importlib
import io
import os
import random
import re
import sys

from . import core, stubmodel, tlc
from .replay_decode import DECODABLE, MOD_SRC, cli_run, make_store, row_for

KINDS = ["valid", "valid2", "valid_method", "renamed_param", "function_removed", "arg_class_removed", "now_nonfunction", "local_scope"]


def cps(s):
    return [ord(c) for c in s]


def run_scenarios(n, seed):
    core.use_repo()
    rng = random.Random(seed)
    d = tlc.scratch_dir("mtverif_cli_")
    sys.path.insert(0, d)
    with open(os.path.join(d, "mtc10_other.py"), "w") as fh:      # (the module MOD_SRC re-imports a moved function from)
        fh.write("def moved_function(a):\n    return a\n")
    recs = []
    try:
        for j in range(n):
            mods = ["mtcli_%d_%da" % (os.getpid(), j), "mtcli_%d_%db" % (os.getpid(), j)]
            for m in mods:
                with open(os.path.join(d, m + ".py"), "w") as fh:
                    fh.write(MOD_SRC)
            importlib.invalidate_caches()
            rows, meta, seen = [], [], set()
            for _ in range(rng.randint(1, 9)):
                kind, m = rng.choice(KINDS), rng.choice(mods)
                r = row_for(kind, m, rng.randint(0, 1))
                if r in seen:
                    continue
                seen.add(r)
                rows.append(r)
                meta.append({"id": len(meta), "mod": m, "fn": cps(r[1]), "ok": kind in DECODABLE})
            db = os.path.join(d, "cli_%d.db" % j)
            make_store(db, rows)
            rc, crashed, out, err = cli_run(["list-modules"], db)
            recs.append({"tid": len(recs) + 1, "cmd": "list-modules", "rc": rc if crashed == "NONE" else 99, "rows": meta,
                         "out_modules": [l for l in out.splitlines() if l.strip()], "m": "", "prefix": [], "noprefix": True,
                         "limit": 0, "counts": [], "stub_funcs": []})
            for _ in range(4):
                m = rng.choice(mods)
                prefix = rng.choice([None, "ok", "ok1", "P", "P.", "renamed", "zzz", "o"])
                limit = rng.choice([0, 1, 2, 3, 2000])
                spec = m if prefix is None else "%s:%s" % (m, prefix)
                rc, crashed, out, err = cli_run(["--limit", str(limit), "stub", "--sample-count", spec], db)
                counts = [{"fn": cps(mm.group(1)[len(m) + 1:]), "count": int(mm.group(2))}
                          for mm in re.finditer(r"Annotation for (\S+) based on (\d+) call trace", err)]
                ab = stubmodel.abs_stub(out)
                funcs = [cps(".".join(f["class_path"] + [f["name"]])) for f in ab["funcs"]] if ab["parses"] else [cps("<unparsable>")]
                recs.append({"tid": len(recs) + 1, "cmd": "stub", "rc": rc if crashed == "NONE" else 99, "rows": meta, "out_modules": [],
                             "m": m, "prefix": cps(prefix or ""), "noprefix": prefix is None, "limit": limit, "counts": counts,
                             "stub_funcs": funcs})
            for m in mods:
                sys.modules.pop(m, None)
    finally:
        import shutil
        shutil.rmtree(d, ignore_errors=True)
        if d in sys.path:
            sys.path.remove(d)
    return recs


def extended_stage(tier, seed):
    recs = run_scenarios(40 if tier == "quick" else 600, seed)
    verdicts, states, trans, wall = tlc.validate_shards("MTCli", "MTInferTrace.cfg", recs, min_per_shard=100)
    by = {r["tid"]: r for r in recs}
    mism = []
    for v in verdicts:
        for clause in v.get("viol", []):
            r = by[v["tid"]]
            mism.append({"clause": clause, "cmd": r["cmd"], "limit": r["limit"], "noprefix": r["noprefix"]})
            print("EXTENDED-SPEC-MISMATCH spec=MTCli clause=%s cmd=%s limit=%s (beyond the listed properties; not an alarm)"
                  % (clause, r["cmd"], r["limit"]))
    return {"spec": "MTCli (list-modules, stub m[:prefix] --limit n --sample-count)", "observations": len(recs), "tlc_states": states,
            "mismatches": mism[:10], "n_mismatches": len(mism)}
