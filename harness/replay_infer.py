"""C04 / C05 / C06: replay TLC's value universes into the real get_type / shrink_types and let
TLC decide the P-layer clauses (Sound, OrderFree, NoError / Tight / TDBound) on what came back."""
import concurrent.futures
import itertools
import json
import random

from . import absmodel, core, envgen, tlc, universe

DEPS = ["MTValues", "MTUniverse"]
KS_ALL = [0, 1, 2, 3, 10, 200]


# ------------------------------------------------------------------ real code, one case
def _orders(n, rng_seed):
    """Index sequences (orders and multiplicities) under which the same values are fed."""
    if n == 1:
        return [[0], [0, 0]]
    if n == 2:
        return [[0, 1], [1, 0], [0, 1, 0]]
    perms = [list(p) for p in itertools.permutations(range(n))]
    if len(perms) > 6:
        r = random.Random(rng_seed)
        perms = [perms[0], perms[-1]] + r.sample(perms[1:-1], 3)
    dup = list(range(n)) + [0, n - 1]
    return perms + [dup]


def run_case(case):
    """case = {tid, k, vals:[abs]}; returns the trace record."""
    from monkeytype.typing import get_type, shrink_types  # the implementation under test
    k = case["k"]
    k1 = case.get("k1", k)          # limit at tracing time (types are collected under k1, merged under k)
    reals = [absmodel.real_value(v) for v in case["vals"]]
    cyclic = any(v["k"] == "cyc" for v in case["vals"])
    rec = {"tid": case["tid"], "k": k, "k1": k1, "vals": case["vals"] if cyclic else [absmodel.abs_value(x) for x in reals], "runs": []}
    for order in _orders(len(reals), case["tid"]):
        try:
            tys = [get_type(reals[i], k1) for i in order]
            ty = shrink_types(tys, k)
            rec["runs"].append({"ty": absmodel.abs_type(ty), "err": "NONE"})
        except Exception as e:  # the outcome, not a harness failure
            rec["runs"].append({"ty": absmodel.ABSENT, "err": type(e).__name__})
    # the per-value types are collected ONCE and merged several times (stored traces feed every later stub run; `stub --diff`
    # merges twice): an earlier merge - next to an unrelated type, so that it takes the mixed path - must leave them intact
    try:
        tys = [get_type(x, k1) for x in reals]
        shrink_types(tys + [type(None), int], k)
        shrink_types(list(reversed(tys)) + [get_type([], k1)], k)
        ty = shrink_types(tys, k)
        rec["runs"].append({"ty": absmodel.abs_type(ty), "err": "NONE"})
    except Exception as e:
        rec["runs"].append({"ty": absmodel.ABSENT, "err": type(e).__name__})
    # ... and merged under ANOTHER limit first (one process building stubs for two configurations, `get_stubs()` called again
    # after the limit was lowered): the later merge obeys its own limit
    try:
        tys = [get_type(x, k1) for x in reals]
        shrink_types(tys, max(k1, k, 3) + 7)
        shrink_types(list(tys), 1)
        ty = shrink_types(tys, k)
        rec["runs"].append({"ty": absmodel.abs_type(ty), "err": "NONE"})
    except Exception as e:
        rec["runs"].append({"ty": absmodel.ABSENT, "err": type(e).__name__})
    # the same values with aliasing: structurally equal containers are one object, inside a value and across values
    # (a row stored twice, the () singleton, one dict passed to two calls); the inferred type must not care
    share = {}
    aliased = [absmodel.real_value(v, share=share) for v in case["vals"]]
    try:
        ty = shrink_types([get_type(x, k1) for x in aliased], k)
        rec["runs"].append({"ty": absmodel.abs_type(ty), "err": "NONE"})
    except Exception as e:
        rec["runs"].append({"ty": absmodel.ABSENT, "err": type(e).__name__})
    return rec


def _run_chunk(chunk):
    core.use_repo()
    envgen.load_fixture_classes()
    return [run_case(c) for c in chunk]


def run_cases(cases, procs=16):
    chunks = [cases[i::procs] for i in range(procs)]
    out = []
    with concurrent.futures.ProcessPoolExecutor(max_workers=procs) as ex:
        for recs in ex.map(_run_chunk, [c for c in chunks if c]):
            out.extend(recs)
    return out


# ------------------------------------------------------------------ enumeration
def gen_cases(tier, seed, env_text):
    U = lambda name: universe.export("MTInferExport", name, DEPS, env_text)  # noqa: E731
    cases, plan = [], []

    def add(label, multisets, ks, k1=None):
        n0 = len(cases)
        for vals in multisets:
            for k in ks:
                c = {"tid": len(cases) + 1, "k": k, "vals": list(vals), "src": label}
                if k1 is not None:
                    c["k1"] = k1
                cases.append(c)
        plan.append({"family": label, "cases": len(cases) - n0, "ks": list(ks), "k1": k1})

    full1, small1, wide, tiny2, recs = U("full1"), U("small1"), U("wide"), U("tiny2"), U("recs")
    rng = random.Random(seed)
    add("singles/full1 (exhaustive)", ([v] for v in full1), KS_ALL)
    add("singles/wide dicts 0..12 keys (exhaustive)", ([v] for v in wide), [0, 1, 2, 3, 10, 12, 200])
    add("singles/tiny2 depth-2 (exhaustive)", ([v] for v in tiny2), [0, 1, 2, 3])
    add("singles/recs: containers of two overlapping dicts (exhaustive)", ([v] for v in recs), [0, 1, 2, 3])
    # class objects of typing's special forms passed around as values (a registry of protocol classes, `Generic` as a marker)
    special = [absmodel.T("classobj", n) for n in ("typing.Generic", "typing.Protocol", "mtfx.shapes.A")]
    add("class objects of typing special forms as values", [[v] for v in special] + [[special[0], special[2]], [special[1], full1[0]]], [0, 3])
    # finite values that contain themselves (inference must terminate without error on them too)
    cyc = [absmodel.T("cyc", n) for n in ("list", "dict", "list_in_tuple")]
    add("values that contain themselves", [[v] for v in cyc] + [[cyc[0], full1[0]]], [0, 3])
    atoms3 = [v for v in recs if v["k"] in ("atom", "str")]
    add("pairs/recs x {int, None, str} (exhaustive)", ([v, a] for v in recs for a in atoms3 if v is not a), [2, 3])
    add("pairs/recs (sampled)", (rng.sample(recs, 2) for _ in range(4000 if tier == "quick" else 60000)), [2, 3])
    two_lists = [v for v in recs if v["k"] == "list" and len(v["a"]) == 2 and all(x["k"] == "dict" for x in v["a"])]
    add("pairs of lists of two dicts (exhaustive): merges of already merged TypedDicts", itertools.combinations(two_lists, 2), [3])
    tup = [absmodel.T("tuple", "", [d]) for d in recs if d["k"] == "dict"]
    tpairs = list(itertools.combinations(tup, 2))
    add("pairs of 1-tuples holding a dict (%s): same keys in another insertion order" % ("sampled" if tier == "quick" else "exhaustive"),
        rng.sample(tpairs, 3000) if tier == "quick" else tpairs, [2, 3])
    # the limit is lowered between tracing and stub generation: types collected under k1 = 3, merged under k < 3
    add("limit lowered after tracing (k1=3): singles wide+recs+tiny2", ([v] for v in wide + recs + tiny2), [0, 1, 2], k1=3)
    add("limit lowered after tracing (k1=3): pairs recs (sampled)", (rng.sample(recs + wide[:12], 2) for _ in range(1500)), [0, 2], k1=3)
    if tier == "quick":
        pairs = list(itertools.combinations(small1, 2))
        add("pairs/small1 (exhaustive)", pairs, [2])
        add("pairs/small1 k in {0,1,3} (sampled)", rng.sample(pairs, 3000), [0, 1, 3])
        small0 = [v for v in small1 if len(json.dumps(v)) < 260][:34]
        add("triples/small0 (exhaustive)", itertools.combinations(small0, 3), [2])
        add("triples/small0 k in {0,3} (sampled)", rng.sample(list(itertools.combinations(small0, 3)), 1500), [0, 3])
        add("pairs/wide (exhaustive)", itertools.combinations(wide, 2), [3])
        add("pairs/wide k in {0,10} (sampled)", rng.sample(list(itertools.combinations(wide, 2)), 2000), [0, 10])
        add("pairs/tiny2 (sampled)", rng.sample(list(itertools.combinations(tiny2, 2)), 2000), [0, 2, 3])
        for size in (2, 3, 4, 5):
            add("random multisets size %d over full1+wide+tiny2" % size,
                (rng.sample(full1 + wide + tiny2 + recs, size) for _ in range(1500)), [rng.choice(KS_ALL)])
    else:
        mid1 = U("mid1")
        add("pairs/mid1 (exhaustive)", itertools.combinations(mid1, 2), [0, 1, 2, 3, 10])
        add("pairs/wide (exhaustive)", itertools.combinations(wide, 2), [0, 1, 2, 3, 10, 12, 200])
        add("pairs/tiny2 (exhaustive)", itertools.combinations(tiny2, 2), [0, 1, 2, 3])
        small0 = [v for v in small1 if len(json.dumps(v)) < 300][:60]
        add("triples/small0 (exhaustive)", itertools.combinations(small0, 3), [0, 1, 2, 3])
        add("pairs/full1 (sampled)", (rng.sample(full1, 2) for _ in range(100000)), [0, 2, 3])
        deep2 = U("deep2")
        add("singles/deep2 (sampled)", ([v] for v in rng.sample(deep2, 20000)), [0, 1, 2, 3])
        for size in (2, 3, 4, 5, 6):
            add("random multisets size %d over full1+wide+tiny2+deep2" % size,
                (rng.sample(full1 + wide + tiny2, size - 1) + [rng.choice(deep2)] for _ in range(20000)),
                [rng.choice(KS_ALL), rng.choice([1, 2, 3])])
    return cases, plan


# ------------------------------------------------------------------ triggers (for findings / evidence)
def kinds_in(term, acc=None):
    acc = set() if acc is None else acc
    acc.add(term["k"])
    for x in term["a"] + term["u"]:
        kinds_in(x, acc)
    return acc


def _has_sub_key(v, k=None):
    """Some dict inside v has a key that is an instance of a str subclass; with k given: ... and that dict is
    one get_dict_type turns into a TypedDict (all keys str-like, 0 < size <= k)."""
    if v["k"] in ("dict", "ddict"):
        if any(p["a"][0]["k"] == "str" and p["a"][0]["a"] for p in v["a"]):
            if k is None or (k > 0 and len(v["a"]) <= k and all(p["a"][0]["k"] == "str" for p in v["a"])):
                return True
    return any(_has_sub_key(x, k) for x in v["a"])


def nontrivial(rec):
    """A case is non-trivial when merging had something to do: >1 distinct value or a container."""
    return len(rec["vals"]) > 1 or any(v["k"] in ("list", "set", "tuple", "dict", "ddict") for v in rec["vals"])


CLAUSES = {"C04": {"Sound", "NoError", "OrderFree"}, "C05": {"Tight"}, "C06": {"TDBound", "TDOnlyFromRecords"}}


def mc_run(tier, env_text):
    cfg = ("SPECIFICATION Spec\nCONSTANTS\n  Ks = {0, 1, 2, 3}\n  MaxObs = %d\n  UName = \"%s\"\n"
           "INVARIANT Inv_Sound\nINVARIANT Inv_Tight\nINVARIANT Inv_TDBound\nINVARIANT Inv_Normal\n"
           "CHECK_DEADLOCK FALSE\n") % ((2, "small1") if tier == "quick" else (3, "small1"))
    res = tlc.run_tlc("MTInferMC", cfg_text=cfg, workers=16, timeout=7200, coverage=False,
                      extra_files={"MTEnv.tla": env_text}, xmx="24g")
    tlc.check_ok(res, "MTInferMC")
    return res


def main(pid, tier, seed, replay=None):
    core.use_repo()
    envgen.load_fixture_classes()
    env_text = envgen.mtenv_text()
    run = core.Run(pid, tier, seed)
    if replay:
        with open(replay) as fh:
            blob = json.load(fh)
        cases, plan = [blob["case"]], [{"family": "replay", "cases": 1}]
        mc = None
    else:
        cases, plan = gen_cases(tier, seed, env_text)
        if pid == "C06":
            # C06 looks at the dict-heavy families (the others are C04/C05's); it adds the end-to-end stages below
            keep = ("wide", "recs", "limit lowered", "tiny2", "random multisets")
            cases = [c for c in cases if any(w in c["src"] for w in keep)]
            plan = [p for p in plan if any(w in p["family"] for w in keep)]
        mc = mc_run(tier, env_text)
    # run and validate in slices: the records of one slice (values, several inferred types each) are dropped once TLC has
    # judged them - all of them at once took > 60 GB in the thorough tier (16 forked workers, each growing to the parent's size)
    case_by_tid = {c["tid"]: c for c in cases}
    by_tid, verdicts, states, trans, wall = {}, [], 0, 0, 0.0
    n_records, n_evals, nt, sample = 0, 0, set(), None
    SLICE = 30000
    for lo in range(0, len(cases), SLICE):
        records = run_cases(cases[lo:lo + SLICE])
        env_text = envgen.mtenv_text()  # classes met while projecting
        v1, s1, t1, w1 = tlc.validate_shards("MTInferTrace", "MTInferTrace.cfg", records, extra_files={"MTEnv.tla": env_text})
        verdicts.extend(v1)
        states, trans, wall = states + s1, trans + t1, wall + w1
        flagged = {v["tid"] for v in v1}
        by_tid.update({r["tid"]: r for r in records if r["tid"] in flagged})
        n_records += len(records)
        n_evals += sum(len(r["runs"]) for r in records)
        nt |= {json.dumps([r["k"], sorted(absmodel.canon(x) for x in r["vals"])]) for r in records if nontrivial(r)}
        if sample is None and records:
            sample = records[len(records) // 2]
        del records
    mine = CLAUSES[pid]
    for v in verdicts:
        rec = by_tid[v["tid"]]
        if v.get("drift"):
            run.drift += 1
        for clause in v.get("viol", []):
            if clause not in mine:
                continue
            vio = {"clause": clause, "k": rec["k"], "limit_lowered_after_tracing": rec["k1"] != rec["k"],
                   "value_kinds": sorted(set().union(*[kinds_in(x) for x in rec["vals"]])),
                   "n_values": len(rec["vals"]),
                   "errs": sorted({r["err"] for r in rec["runs"]} - {"NONE"})}
            if any(x["k"] == "classobj" and x["n"] in ("typing.Generic", "typing.Protocol") for x in rec["vals"]):
                vio = {"clause": clause, "typing_special_form_class_object": True, "errs": vio["errs"]}
            if "cyc" in vio.get("value_kinds", []):
                vio = {"clause": clause, "self_containing_value": True, "errs": vio["errs"]}
            c = case_by_tid[v["tid"]]
            if clause == "Tight":
                vio["has_str_subclass_key"] = any(_has_sub_key(x) for x in rec["vals"])
                # the recorded finding needs a str-subclass-keyed dict that BECAME a TypedDict at tracing time
                vio["str_subclass_keyed_dict_became_typed_dict"] = any(_has_sub_key(x, rec["k1"]) for x in rec["vals"])
                if vio["str_subclass_keyed_dict_became_typed_dict"]:
                    vio.pop("value_kinds"), vio.pop("n_values"), vio.pop("k")
            if clause == "TDBound" and rec["k1"] != rec["k"]:
                tys = [r["ty"] for r in rec["runs"] if r["err"] == "NONE"]
                vio["oversized_typed_dict_at_top_level"] = any(
                    t["k"] == "td" and (rec["k"] == 0 or len(t["u"]) > rec["k"]) for t in tys)
                vio.pop("value_kinds"), vio.pop("n_values"), vio.pop("k")
            run.violation(vio, {k2: c[k2] for k2 in ("tid", "k", "k1", "vals") if k2 in c})
    e2e = None
    if pid == "C05" and not replay:
        # end to end: real tracing -> store -> stub without a rewriter; every alternative of an annotation is witnessed by a
        # value really seen at that position (a trace credited to the wrong call, a stale type, ... is not a property of get_type)
        from . import replay_pipeline
        precs, pcases, pplan, _, pstates, ptrans, pwall = replay_pipeline.run_pipeline("C05", tier, seed, run)
        e2e = {"plan": pplan, "runs": len(precs), "tlc_states": pstates, "positions_checked": sum(len(r["positions"]) for r in precs)}
        states += pstates
        trans += ptrans
    if pid == "C06" and not replay:
        # stages (ii) and (iii): the rows of a real store and the TypedDict classes of the real stub
        from . import replay_pipeline
        precs, pcases, pplan, _, pstates, ptrans, pwall = replay_pipeline.run_pipeline("C06", tier, seed, run)
        e2e = {"plan": pplan, "runs": len(precs), "tlc_states": pstates,
               "typed_dict_classes_checked": sum(len(r["tds"]) for r in precs), "stored_types_checked": sum(len(r["stored"]) for r in precs)}
        states += pstates
        trans += ptrans
    cov = {
        "states": (mc.distinct if mc else 0) + states,
        "transitions": (mc.generated if mc else 0) + trans,
        "traces_validated_against_impl": n_records,
        "evaluations": n_evals,
        "distinct_nontrivial": len(nt),
        "rule": "cases = (set of grammar values, k); enumerated exhaustively over TLC-exported universes where the plan "
                "says so, seeded-random otherwise; each case is fed to the real get_type/shrink_types under several "
                "orders and multiplicities; non-trivial = more than one distinct value or a container value; distinct "
                "by (k, set of values)",
        "samples": [core.trim({"k": sample["k"], "vals": sample["vals"], "runs": sample["runs"][:1]}, 1500)],
        "plan": plan,
        "mc": None if mc is None else {"spec": "MTInferMC (I => P, all P clauses as invariants)",
                                       "distinct_states": mc.distinct, "states_generated": mc.generated,
                                       "depth": mc.depth, "wall_s": round(mc.wall, 1)},
        "trace_validation": {"spec": "MTInferTrace", "tlc_states": states, "wall_s": round(wall, 1)},
        "clauses_decided": sorted(mine) + (["StubTDBound", "StoredTDBound"] if e2e else []),
        "end_to_end": e2e,
        "exhaustive": False,
    }
    return run.finish(cov)
