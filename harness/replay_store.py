"""C09: behaviours of MTStore (TLC) replayed as deterministic schedules on REAL processes sharing one
SQLite file: each connection is a process; the SQLite progress handler is the scheduling point
(pause / continue / interrupt / SIGKILL inside SQLiteStore.add).  The event log of what really
happened, with the table contents read through an independent connection after every step, is
validated by TLC against the P-layer MTStoreTrace."""
import concurrent.futures
import json
import multiprocessing as mp
import os
import random
import shutil
import signal
import sqlite3
import time
import types
import typing

from . import core, tlc

TICK = 8          # VM instructions between scheduling points
ROWS = {"r1": ("m1", "my_func"), "r2": ("m1", "myXfunc"), "r3": ("m1", "MY_FUNC"), "r4": ("m1", "Foo.bar"),
        "r5": ("m1", "foo"), "r6": ("m2", "my_func"), "r7": ("m1", "a%b"), "r8": ("m1", "aXb"),
        # same module and qualname as r1, differing in ONE other column only (yield / return / argument types)
        "r9": ("m1", "my_func"), "r10": ("m1", "my_func"), "r11": ("m1", "my_func"),
        # the dotted path module + "." + qualname is the same for both, module and qualname are not
        "r12": ("m1.sub", "area"), "r13": ("m1", "sub.area"),
        # an identifier with a letter outside the Basic Multilingual Plane right after the prefix "my"
        "r14": ("m1", "my\U00020000func")}
BATCHES = {"b1": (["r1", "r2"], 0), "b2": (["r3", "r5", "r1"], 1), "b3": (["r4", "r6", "r9", "r12", "r13"], 0), "b4": (["r7", "r8", "r10", "r14"], 1),
           "b5": ([], 2), "b6": (["r11", "r9", "r10"], 0)}      # b6: one function, three traces that differ in one column each - among them
# (no return, yields int) next to (returns int, no yield): the same values in other columns


PREFIXES = [None, "my_func", "my", "foo", "Foo.", "a%", "a_", "MY_", "myX", "f", "Foo.bar", "my_funcs"]
QUERIES = [(m, p, n) for m in ("m1", "m2") for p in PREFIXES for n in (1, 2, 2000)] + \
          [(m, p, n) for m in ("m1.sub", "m1") for p in (None, "sub", "sub.", "area", "sub.area") for n in (1, 2000)]


def _code():
    def template(a):
        return a
    return template.__code__


BIG = 1203      # one batch with more rows than any plausible internal chunk size


def make_traces(batch_rows, nbad, salt=""):
    """Real CallTraces for row ids; unserialisable ones (Tuple[int, ...] argument) interleaved."""
    from monkeytype.tracing import CallTrace
    out = []
    if batch_rows == "BIG":
        batch_rows = [("mbig", "fn%04d" % j) for j in range(BIG)]
    elif isinstance(batch_rows, (tuple, list)) and len(batch_rows) == 2 and batch_rows[0] in ("PRE", "CUT"):
        batch_rows = [("mbig", "%s%06d" % (batch_rows[0].lower(), j)) for j in range(batch_rows[1])]
    for j, rid in enumerate(batch_rows):
        mod, qn = ROWS[rid] if rid in ROWS else rid
        f = types.FunctionType(_code(), {}, qn.split(".")[-1])
        f.__module__, f.__qualname__ = mod, qn
        out.append(CallTrace(f, {"a": str} if rid == "r11" else {"a": int},
                             type(None) if rid in ("r2", "r8") else (int if rid == "r10" else None),
                             int if rid == "r9" else None))
    for j in range(nbad):
        pos = min(j * 2, len(out))
        if j % 2 == 0 and pos < len(out):
            # unserialisable because of its TYPES, and a trace of the very function whose serialisable trace comes next
            # (one call of f returned something the encoder cannot handle, the next one did not)
            out.insert(pos, CallTrace(out[pos].func, {"a": typing.Tuple[int, ...]}))
            continue
        f = types.FunctionType(_code(), {}, "bad")
        f.__module__, f.__qualname__ = "m1", "bad%d" % j
        out.insert(pos, CallTrace(f, {"a": typing.Tuple[int, ...]}))
    return out


def row_abs(mod, qn, args, ret, yld, cnt=None):
    r = {"mod": mod, "qn": [ord(ch) for ch in qn], "key": "%s|%s|%s" % (args, ret, yld)}
    if cnt is not None:
        r["cnt"] = cnt
    return r


def expected_rows(batch_rows):
    """What the serialisable traces of a batch look like as rows (through the real encoder, in-process)."""
    from monkeytype.encoding import CallTraceRow
    out = []
    for t in make_traces(batch_rows, 0):
        r = CallTraceRow.from_trace(t)
        out.append(row_abs(r.module, r.qualname, r.arg_types, r.return_type, r.yield_type))
    return out


# ------------------------------------------------------------------------------ worker = one connection
def worker_main(dbpath, pipe, repo):
    import logging
    import sys
    logging.disable(logging.CRITICAL)
    if repo not in sys.path:
        sys.path.insert(0, repo)
    from monkeytype.db.sqlite import SQLiteStore
    conn = sqlite3.connect(dbpath, timeout=0.05)   # the table already exists (made by the coordinator)
    store = SQLiteStore(conn)
    st = {"free": True}

    def handler():
        if st.get("act"):            # unattended run, cut after a number of callbacks (one-shot)
            st["seen"] += 1
            if st["act"] != "count" and st["seen"] >= st["cut"]:
                act, st["act"] = st["act"], None
                if act == "kill":
                    os.kill(os.getpid(), signal.SIGKILL)
                return 1
            return 0
        if st["free"]:
            return 0
        pipe.send(("paused",))
        cmd = pipe.recv()
        if isinstance(cmd, tuple):       # Conn.call sends tuples
            cmd = cmd[0]
        if cmd == "tick":
            return 0
        if cmd == "run":
            st["free"] = True
            return 0
        if cmd == "abort":
            st["free"] = True
            return 1
        if cmd == "kill":
            os.kill(os.getpid(), signal.SIGKILL)
        return 0

    conn.set_progress_handler(handler, TICK)
    while True:
        cmd = pipe.recv()
        try:
            if cmd[0] == "add":
                traces = make_traces(cmd[1], cmd[2])
                st["free"] = not cmd[3]
                try:
                    store.add(traces)
                    pipe.send(("done", True, ""))
                except Exception as e:
                    pipe.send(("done", False, "%s: %s" % (type(e).__name__, e)))
                st["free"] = True
            elif cmd[0] == "use_make_store":      # the connection DefaultConfig.trace_store() would hand out
                conn.close()
                store = SQLiteStore.make_store(dbpath)
                conn = store.conn
                conn.set_progress_handler(handler, TICK)
                pipe.send(("ok",))
            elif cmd[0] == "add_cut":             # add(rows), cut after cmd[2] progress callbacks by cmd[3]
                traces = make_traces(cmd[1], 0)
                st.update(free=True, act=cmd[3], cut=cmd[2], seen=0)
                try:
                    store.add(traces)
                    res = ("done", True, "", st["seen"])
                except Exception as e:
                    res = ("done", False, "%s: %s" % (type(e).__name__, e), st["seen"])
                st["act"] = None
                pipe.send(res)
            elif cmd[0] == "filter":
                rows = store.filter(cmd[1], cmd[2], cmd[3])
                pipe.send(("rows", [(r.module, r.qualname, r.arg_types, r.return_type, r.yield_type) for r in rows]))
            elif cmd[0] == "modules":
                pipe.send(("mods", store.list_modules()))
            elif cmd[0] == "quit":
                conn.close()
                return
        except Exception as e:  # pragma: no cover
            pipe.send(("fail", "%s: %s" % (type(e).__name__, e)))


class Conn:
    def __init__(self, ctx, dbpath):
        self.pipe, child = ctx.Pipe()
        self.proc = ctx.Process(target=worker_main, args=(dbpath, child, core.REPO), daemon=True)
        self.proc.start()
        child.close()
        self.paused = None      # batch id while paused inside add

    def call(self, *cmd, timeout=20):
        self.pipe.send(cmd)
        return self.wait(timeout)

    def wait(self, timeout=20):
        if not self.pipe.poll(timeout):
            raise RuntimeError("worker did not answer")
        return self.pipe.recv()

    def close(self):
        try:
            if self.proc.is_alive():
                if self.paused:
                    self.pipe.send("run")
                    self.wait()
                self.pipe.send(("quit",))
                self.proc.join(2)
        except Exception:
            pass
        if self.proc.is_alive():
            self.proc.kill()
            self.proc.join(2)


def check_event(dbpath):
    c = sqlite3.connect(dbpath, timeout=0.5)
    try:
        rows = c.execute("SELECT module, qualname, arg_types, return_type, yield_type, count(*) FROM monkeytype_call_traces "
                         "GROUP BY 1,2,3,4,5").fetchall()
        integ = c.execute("PRAGMA integrity_check").fetchone()[0]
    except sqlite3.OperationalError as e:
        # the independent reader could not look (a writer holds the database): no observation at this step
        return {"ev": "CheckSkipped", "why": str(e)[:60]}
    finally:
        c.close()
    return {"ev": "Check", "rows": [row_abs(*r[:5], cnt=r[5]) for r in rows], "integrity": integ}


def run_behaviour(sc):
    """sc = {tid, hist}; returns the trace record of what really happened."""
    ctx = mp.get_context("fork")
    d = tlc.scratch_dir("mtverif_db_")
    dbpath = os.path.join(d, "traces.sqlite3")
    events, conns = [], {}
    started = set()
    try:
        from monkeytype.db.sqlite import SQLiteStore
        SQLiteStore.make_store(dbpath).conn.close()   # creates the table through the public factory
        for c in ("c1", "c2"):
            conns[c] = Conn(ctx, dbpath)

        def finish_add(c, msg):
            cn = conns[c]
            if msg[0] == "paused":
                return
            events.append({"ev": "AddEnd", "c": c, "b": cn.paused, "ok": bool(msg[1]), "err": msg[2][:80]})
            cn.paused = None

        def start_add(c, b, pause):
            bid = b
            k = 1
            while bid in started:          # the same model batch added again is a new batch with the same rows
                k += 1
                bid = "%s#%d" % (b, k)
            started.add(bid)
            rows, nbad = BATCHES[b]
            events.append({"ev": "AddStart", "c": c, "b": bid, "rows": expected_rows(rows), "nbad": nbad})
            conns[c].paused = bid
            finish_add(c, conns[c].call("add", rows, nbad, pause))

        for h in sc["hist"]:
            op, c = h["op"], h["c"]
            cn = conns.get(c)
            alive = cn is not None and cn.proc.is_alive()
            if op == "Begin" and alive and not cn.paused:
                start_add(c, h["b"], True)
            elif op == "Busy" and alive and not cn.paused:
                start_add(c, h["b"], False)
            elif op == "Insert" and alive and cn.paused:
                finish_add(c, cn.call("tick"))
            elif op == "Commit" and alive and cn.paused:
                finish_add(c, cn.call("run"))
            elif op == "Abort" and alive and cn.paused:
                finish_add(c, cn.call("abort"))
            elif op == "Crash" and alive and cn.paused:
                cn.pipe.send("kill")
                cn.proc.join(5)
                events.append({"ev": "Crash", "c": c, "b": cn.paused})
                cn.paused = None
            elif op == "Reopen" and not alive:
                conns[c] = Conn(ctx, dbpath)
            elif op == "Filter" and alive and not cn.paused:
                for m, p, n in QUERIES:
                    msg = cn.call("filter", m, p, n)
                    if msg[0] != "rows":    # the query raised: an observation, not a harness failure
                        events.append({"ev": "QueryFailed", "c": c, "op": "filter", "err": str(msg[1])[:80]})
                        break
                    events.append({"ev": "Filter", "c": c, "m": m, "p": [0] if p is None else [ord(ch) for ch in p], "n": n,
                                   "res": [row_abs(*r) for r in msg[1]]})
            elif op == "ListModules" and alive and not cn.paused:
                msg = cn.call("modules")
                if msg[0] != "mods":
                    events.append({"ev": "QueryFailed", "c": c, "op": "list_modules", "err": str(msg[1])[:80]})
                else:
                    events.append({"ev": "Modules", "c": c, "res": list(msg[1])})
            else:
                continue
            events.append(check_event(dbpath))
        # wind down: let paused writers finish, then look again through a fresh connection (reopen)
        for c, cn in conns.items():
            if cn.proc.is_alive() and cn.paused:
                finish_add(c, cn.call("run"))
        if sc.get("big"):      # one very large batch through a live connection: all of it or nothing
            c = next((c for c, cn in conns.items() if cn.proc.is_alive()), None)
            if c is not None:
                events.append({"ev": "AddStart", "c": c, "b": "bbig", "rows": expected_rows("BIG"), "nbad": 0})
                conns[c].paused = "bbig"
                finish_add(c, conns[c].call("add", "BIG", 0, False, timeout=60))
                events.append(check_event(dbpath))
        for cn in conns.values():
            cn.close()
        events.append(check_event(dbpath))
        # the same database on a later day: half of the rows (duplicates of one trace among them) were recorded on
        # earlier days.  Only created_at changes; what the store contains - and must return - does not.
        bd = sqlite3.connect(dbpath, timeout=2)
        try:
            bd.execute("UPDATE monkeytype_call_traces SET created_at = datetime(created_at, '-' || (rowid % 3) || ' days') "
                       "WHERE rowid % 3 != 0")
            bd.commit()
        finally:
            bd.close()
        events.append(check_event(dbpath))
        fresh = Conn(ctx, dbpath)
        msg = fresh.call("modules")
        if msg[0] != "mods":
            events.append({"ev": "QueryFailed", "c": "fresh", "op": "list_modules", "err": str(msg[1])[:80]})
        else:
            events.append({"ev": "Modules", "c": "fresh", "res": list(msg[1])})
        for m, p, n in [(m, None, 2000) for m in ("m1", "m2", "m1.sub")] + [("m1", "my_func", 2), ("m1", "my_func", 3), ("m1", None, 4)]:
            msg = fresh.call("filter", m, p, n)
            if msg[0] != "rows":
                events.append({"ev": "QueryFailed", "c": "fresh", "op": "filter", "err": str(msg[1])[:80]})
            else:
                events.append({"ev": "Filter", "c": "fresh", "m": m, "p": [0] if p is None else [ord(ch) for ch in p], "n": n,
                               "res": [row_abs(*r) for r in msg[1]]})
        fresh.close()
    finally:
        for cn in conns.values():
            cn.close()
        shutil.rmtree(d, ignore_errors=True)
    return {"tid": sc["tid"], "events": events}


def count_event(dbpath, sizes):
    """Big batches are observed as counts: how many rows of each batch are in the table (and how many other rows)."""
    c = sqlite3.connect(dbpath, timeout=2)
    try:
        per = {}
        for b, (prefix, size) in sizes.items():
            per[b] = c.execute("SELECT count(DISTINCT qualname), count(*) FROM monkeytype_call_traces WHERE module = 'mbig' "
                               "AND qualname LIKE ?", (prefix + "%",)).fetchone()
        total = c.execute("SELECT count(*) FROM monkeytype_call_traces").fetchone()[0]
        integ = c.execute("PRAGMA integrity_check").fetchone()[0]
    except sqlite3.DatabaseError as e:       # e.g. "database disk image is malformed"
        return {"ev": "CheckCounts", "counts": [], "other": 0, "integrity": str(e)[:60]}
    finally:
        c.close()
    return {"ev": "CheckCounts", "counts": [{"b": b, "present": per[b][0], "copies": per[b][1], "size": sizes[b][1]} for b in sorted(per)],
            "other": total - sum(v[1] for v in per.values()), "integrity": integ}


def run_bigcut(sc):
    """sc = {tid, pre, rows, cut, act}: through the connection make_store() hands out, one committed batch of `pre`
    rows, then one batch of `rows` rows whose add() is cut after `cut` progress callbacks by `act` (abort = the
    statement is interrupted once, kill = SIGKILL of the writer); then the file is looked at and reopened."""
    ctx = mp.get_context("fork")
    d = tlc.scratch_dir("mtverif_dbbig_")
    dbpath = os.path.join(d, "traces.sqlite3")
    events = []
    sizes = {"bpre": ("pre", sc["pre"]), "bcut": ("cut", sc["rows"])}
    w = None
    try:
        from monkeytype.db.sqlite import SQLiteStore
        SQLiteStore.make_store(dbpath).conn.close()
        w = Conn(ctx, dbpath)
        w.call("use_make_store")
        if sc["pre"]:
            events.append({"ev": "BigAddStart", "c": "c1", "b": "bpre", "size": sc["pre"]})
            msg = w.call("add_cut", ("PRE", sc["pre"]), 0, "count", timeout=120)
            events.append({"ev": "AddEnd", "c": "c1", "b": "bpre", "ok": bool(msg[1]), "err": str(msg[2])[:80]})
            events.append(count_event(dbpath, sizes))
        events.append({"ev": "BigAddStart", "c": "c1", "b": "bcut", "size": sc["rows"]})
        w.pipe.send(("add_cut", ("CUT", sc["rows"]), sc["cut"], sc["act"]))
        deadline = time.time() + 180
        msg = None
        while time.time() < deadline:
            if w.pipe.poll(0.05):
                try:
                    msg = w.pipe.recv()
                except EOFError:
                    msg = None
                break
            if not w.proc.is_alive():
                break
        if msg is None:
            w.proc.join(5)
            events.append({"ev": "Crash", "c": "c1", "b": "bcut"})
        else:
            events.append({"ev": "AddEnd", "c": "c1", "b": "bcut", "ok": bool(msg[1]), "err": str(msg[2])[:80]})
        events.append(count_event(dbpath, sizes))
        w.close()
        fresh = Conn(ctx, dbpath)          # reopen: a hot journal, if any, is rolled back now
        msg = fresh.call("modules", timeout=60)
        if msg[0] != "mods":
            events.append({"ev": "QueryFailed", "c": "fresh", "op": "list_modules", "err": str(msg[1])[:80]})
        fresh.close()
        events.append(count_event(dbpath, sizes))
    finally:
        if w is not None:
            w.close()
        shutil.rmtree(d, ignore_errors=True)
    return {"tid": sc["tid"], "events": events}


# ------------------------------------------------------------------------------ free-running processes (no scheduling)
FREE_NAMES = [("m1", "my_func"), ("m1", "my_funcs"), ("m1", "Foo.bar"), ("m1", "foo"), ("m2", "my_func"), ("m1.sub", "area"),
              ("m1", "sub.area"), ("m2", "other"), ("m1", "a%b"), ("m1", "aXb")]
FREE_QUERIES = [("m1", None, 2000), ("m1", "my_func", 2000), ("m1", "my", 3), ("m2", None, 1), ("m1.sub", None, 2000),
                ("m1", "sub.", 2000), ("m1", "a%", 2000), ("m1", "Foo.", 1)]


def _free_log(logpath, ev):
    import fcntl
    with open(logpath + ".lock", "w") as lk:
        fcntl.flock(lk, fcntl.LOCK_EX)
        with open(logpath, "a") as fh:
            fh.write(json.dumps(ev) + "\n")


def _free_traces(names):
    from monkeytype.tracing import CallTrace
    out = []
    for mod, qn in names:
        f = types.FunctionType(_code(), {}, qn.split(".")[-1])
        f.__module__, f.__qualname__ = mod, qn
        out.append(CallTrace(f, {"a": int}, None, None))
    return out


def _free_rows(names):
    from monkeytype.encoding import CallTraceRow
    out = []
    for t in _free_traces(names):
        r = CallTraceRow.from_trace(t)
        out.append(row_abs(r.module, r.qualname, r.arg_types, r.return_type, r.yield_type))
    return out


def free_writer(dbpath, logpath, wid, batches, repo):
    import logging
    import sys
    logging.disable(logging.CRITICAL)
    if repo not in sys.path:
        sys.path.insert(0, repo)
    from monkeytype.db.sqlite import SQLiteStore
    store = SQLiteStore.make_store(dbpath)
    for j, names in enumerate(batches):
        bid = "w%db%d" % (wid, j)
        _free_log(logpath, {"ev": "AddStart", "c": "w%d" % wid, "b": bid, "rows": _free_rows(names), "nbad": 0})
        try:
            store.add(_free_traces(names))
            _free_log(logpath, {"ev": "AddEnd", "c": "w%d" % wid, "b": bid, "ok": True, "err": ""})
        except Exception as e:
            _free_log(logpath, {"ev": "AddEnd", "c": "w%d" % wid, "b": bid, "ok": False, "err": ("%s: %s" % (type(e).__name__, e))[:80]})
        time.sleep(0.004)
    store.conn.close()


def free_reader(dbpath, logpath, rid, nq, seed, repo):
    import logging
    import sys
    logging.disable(logging.CRITICAL)
    if repo not in sys.path:
        sys.path.insert(0, repo)
    from monkeytype.db.sqlite import SQLiteStore
    rng = random.Random(seed)
    store = SQLiteStore.make_store(dbpath)
    c = "r%d" % rid
    for _ in range(nq):
        _free_log(logpath, {"ev": "QueryStart", "c": c})
        if rng.random() < 0.2:
            try:
                _free_log(logpath, {"ev": "Modules", "c": c, "res": list(store.list_modules())})
            except Exception as e:
                _free_log(logpath, {"ev": "QueryFailed", "c": c, "op": "list_modules", "err": str(e)[:80]})
            continue
        m, p, n = rng.choice(FREE_QUERIES)
        try:
            rows = store.filter(m, p, n)
            _free_log(logpath, {"ev": "Filter", "c": c, "m": m, "p": [0] if p is None else [ord(ch) for ch in p], "n": n,
                                "res": [row_abs(r.module, r.qualname, r.arg_types, r.return_type, r.yield_type) for r in rows]})
        except Exception as e:
            _free_log(logpath, {"ev": "QueryFailed", "c": c, "op": "filter", "err": str(e)[:80]})
    store.conn.close()


def free_checker(dbpath, logpath, n):
    for _ in range(n):
        _free_log(logpath, {"ev": "QueryStart", "c": "chk"})
        _free_log(logpath, check_event(dbpath))
        time.sleep(0.002)


def run_free(sc):
    """sc = {tid, writers, per_writer, readers, queries, seed}: processes run freely against one database file; the only
    ordering is that of their entries in one shared log (written under a lock: AddStart before add() is called, AddEnd after
    it returned; QueryStart before a query is sent, the answer after it came back)."""
    ctx = mp.get_context("fork")
    d = tlc.scratch_dir("mtverif_free_")
    dbpath, logpath = os.path.join(d, "traces.sqlite3"), os.path.join(d, "events.ndjson")
    rng = random.Random(sc["seed"])
    try:
        from monkeytype.db.sqlite import SQLiteStore
        SQLiteStore.make_store(dbpath).conn.close()
        open(logpath, "w").close()
        procs = []
        for w in range(sc["writers"]):
            batches = [rng.sample(FREE_NAMES, rng.randint(1, 3)) + ([rng.choice(FREE_NAMES)] if rng.random() < 0.3 else [])
                       for _ in range(sc["per_writer"])]
            for j in range(len(batches)):      # some bulky batches (the insert takes long enough to be looked at from outside)
                if rng.random() < 0.35:
                    batches[j] = batches[j] + [("mbulk", "w%db%d_fn%03d" % (w, j, x)) for x in range(rng.randint(25, 60))]
            procs.append(ctx.Process(target=free_writer, args=(dbpath, logpath, w, batches, core.REPO), daemon=True))
        for r in range(sc["readers"]):
            procs.append(ctx.Process(target=free_reader, args=(dbpath, logpath, r, sc["queries"], sc["seed"] * 100 + r, core.REPO), daemon=True))
        procs.append(ctx.Process(target=free_checker, args=(dbpath, logpath, sc["queries"] // 2), daemon=True))
        for p in procs:
            p.start()
        for p in procs:
            p.join(120)
            if p.is_alive():
                p.kill()
                raise RuntimeError("free-running process did not finish")
        with open(logpath) as fh:
            events = [json.loads(line) for line in fh if line.strip()]
        # an answer whose query interval saw more than 4 batches commit is dropped (its explanation space is exponential
        # in that number; dropping an observation never turns a correct store into a violation)
        open_q, commits, keep = {}, 0, [True] * len(events)
        for idx, e in enumerate(events):
            if e["ev"] == "AddEnd" and e["ok"]:
                commits += 1
            elif e["ev"] == "QueryStart":
                open_q[e["c"]] = (idx, commits)
            elif e["ev"] in ("Filter", "Modules", "QueryFailed", "Check"):
                c = e.get("c", "chk")
                if c in open_q:
                    idx0, c0 = open_q.pop(c)
                    if commits - c0 > 4:
                        keep[idx] = keep[idx0] = False
        dropped = keep.count(False) // 2
        events = [e for e, kp in zip(events, keep) if kp]
        events.append(check_event(dbpath))
        st = SQLiteStore.make_store(dbpath)
        events.append({"ev": "Modules", "c": "fresh", "res": list(st.list_modules())})
        for m, p, n in FREE_QUERIES:
            rows = st.filter(m, p, n)
            events.append({"ev": "Filter", "c": "fresh", "m": m, "p": [0] if p is None else [ord(ch) for ch in p], "n": n,
                           "res": [row_abs(r.module, r.qualname, r.arg_types, r.return_type, r.yield_type) for r in rows]})
        st.conn.close()
    finally:
        shutil.rmtree(d, ignore_errors=True)
    return {"tid": sc["tid"], "events": events, "dropped_answers": dropped}


def _reldir_child(base, pipe, repo):
    """In ONE process: make_store("traces.sqlite3") in directory A, add batch bA; chdir to B, make_store of the same
    RELATIVE name, add batch bB, query; back in A, query.  Every store is used from the directory it was made in."""
    import logging
    import sys
    logging.disable(logging.CRITICAL)
    if repo not in sys.path:
        sys.path.insert(0, repo)
    from monkeytype.db.sqlite import SQLiteStore
    out = {}
    try:
        a, b = os.path.join(base, "A"), os.path.join(base, "B")
        os.chdir(a)
        sa = SQLiteStore.make_store("traces.sqlite3")
        sa.add(make_traces(["r1", "r2"], 0))
        os.chdir(b)
        sb = SQLiteStore.make_store("traces.sqlite3")
        sb.add(make_traces(["r4", "r6"], 0))
        q = lambda st, m: [(r.module, r.qualname, r.arg_types, r.return_type, r.yield_type) for r in st.filter(m, None, 2000)]  # noqa: E731
        out["B"] = {"m1": q(sb, "m1"), "m2": q(sb, "m2"), "mods": list(sb.list_modules())}
        os.chdir(a)
        sa2 = SQLiteStore.make_store("traces.sqlite3")
        out["A"] = {"m1": q(sa2, "m1"), "m2": q(sa2, "m2"), "mods": list(sa2.list_modules())}
        pipe.send(("ok", out))
    except Exception as e:
        pipe.send(("fail", "%s: %s" % (type(e).__name__, e)))


def run_reldir(sc):
    """sc = {tid, reldir: "A" | "B"}: the trace of ONE of the two databases (what was added to it, what its queries answered,
    what its file holds afterwards)."""
    ctx = mp.get_context("fork")
    d = tlc.scratch_dir("mtverif_rel_")
    try:
        for x in ("A", "B"):
            os.makedirs(os.path.join(d, x))
        parent, child = ctx.Pipe()
        p = ctx.Process(target=_reldir_child, args=(d, child, core.REPO), daemon=True)
        p.start()
        if not parent.poll(60):
            raise RuntimeError("reldir child did not answer")
        msg = parent.recv()
        p.join(10)
        which = sc["reldir"]
        rows = ["r1", "r2"] if which == "A" else ["r4", "r6"]
        events = [{"ev": "AddStart", "c": "c1", "b": "b" + which, "rows": expected_rows(rows), "nbad": 0}]
        if msg[0] != "ok":
            events.append({"ev": "QueryFailed", "c": "c1", "op": "reldir", "err": str(msg[1])[:80]})
        else:
            events.append({"ev": "AddEnd", "c": "c1", "b": "b" + which, "ok": True, "err": ""})
            res = msg[1][which]
            for m in ("m1", "m2"):
                events.append({"ev": "Filter", "c": "c1", "m": m, "p": [0], "n": 2000, "res": [row_abs(*r) for r in res[m]]})
            events.append({"ev": "Modules", "c": "c1", "res": res["mods"]})
            events.append(check_event(os.path.join(d, which, "traces.sqlite3")))
    finally:
        shutil.rmtree(d, ignore_errors=True)
    return {"tid": sc["tid"], "events": events}


def _open_locked_child(dbpath, pipe, repo):
    try:
        import sys
        sys.path.insert(0, repo)
        from monkeytype.db.sqlite import SQLiteStore
        try:
            st = SQLiteStore.make_store(dbpath)
            pipe.send(("opened", [list(map(str, (t.module, t.qualname))) for t in st.filter("m1")]))
        except Exception as e:
            pipe.send(("refused", type(e).__name__))
    except Exception as e:
        pipe.send(("fail", "%s: %s" % (type(e).__name__, e)))


def run_open_locked(sc):
    """sc = {tid, open_locked: True}: a second process opens the store (make_store) while another connection holds the
    database exclusively for longer than SQLite's busy timeout; it may be refused, it may wait - the committed batch is there
    afterwards, for the lock holder and for everybody who opens the file later."""
    ctx = mp.get_context("fork")
    d = tlc.scratch_dir("mtverif_lock_")
    dbpath = os.path.join(d, "traces.sqlite3")
    try:
        from monkeytype.db.sqlite import SQLiteStore
        st = SQLiteStore.make_store(dbpath)
        rows = ["r1", "r2"]
        events = [{"ev": "AddStart", "c": "c1", "b": "b1", "rows": expected_rows(rows), "nbad": 0}]
        st.add(make_traces(rows, 0))
        events.append({"ev": "AddEnd", "c": "c1", "b": "b1", "ok": True, "err": ""})
        st.conn.close()
        holder = sqlite3.connect(dbpath, isolation_level=None)
        holder.execute("BEGIN EXCLUSIVE")
        parent, child = ctx.Pipe()
        p = ctx.Process(target=_open_locked_child, args=(dbpath, child, core.REPO), daemon=True)
        p.start()
        msg = parent.recv() if parent.poll(40) else ("fail", "no answer")
        p.join(5)
        try:
            holder.execute("COMMIT")
            holder.close()
        except sqlite3.Error as e:
            events.append({"ev": "QueryFailed", "c": "c1", "op": "lock holder commit", "err": str(e)[:80]})
        if msg[0] == "fail":
            raise RuntimeError("open-while-locked child: %s" % (msg[1],))
        st2 = SQLiteStore.make_store(dbpath)
        for m in ("m1", "m2"):
            res = [(t.module, t.qualname, t.arg_types, t.return_type, t.yield_type) for t in st2.filter(m)]
            events.append({"ev": "Filter", "c": "c1", "m": m, "p": [0], "n": 2000, "res": [row_abs(*r) for r in res]})
        events.append({"ev": "Modules", "c": "c1", "res": list(st2.list_modules())})
        st2.conn.close()
        events.append(check_event(dbpath))
    finally:
        shutil.rmtree(d, ignore_errors=True)
    return {"tid": sc["tid"], "events": events}


def calibrate_callbacks(rows):
    """Number of progress callbacks an uninterrupted add() of `rows` rows takes (on an empty table)."""
    ctx = mp.get_context("fork")
    d = tlc.scratch_dir("mtverif_dbcal_")
    try:
        dbpath = os.path.join(d, "t.sqlite3")
        from monkeytype.db.sqlite import SQLiteStore
        SQLiteStore.make_store(dbpath).conn.close()
        w = Conn(ctx, dbpath)
        w.call("use_make_store")
        msg = w.call("add_cut", ("CUT", rows), 0, "count", timeout=120)
        w.close()
        return int(msg[3])
    finally:
        shutil.rmtree(d, ignore_errors=True)


def _run_chunk(chunk):
    core.use_repo()
    import logging
    logging.disable(logging.CRITICAL)
    return [(run_bigcut(sc) if "cut" in sc else run_free(sc) if "writers" in sc else run_reldir(sc) if "reldir" in sc
             else run_open_locked(sc) if "open_locked" in sc else run_behaviour(sc)) for sc in chunk]


def run_behaviours(scs, procs=16):
    chunks = [scs[i::procs] for i in range(procs)]
    out = []
    with concurrent.futures.ProcessPoolExecutor(max_workers=procs, mp_context=mp.get_context("spawn")) as ex:
        for recs in ex.map(_run_chunk, [c for c in chunks if c]):
            out.extend(recs)
    return out


# ------------------------------------------------------------------------------ TLC side
def mc_cfg(depth, dev_like, invariants=True, emit=False, view=True):
    # for behaviour export the query parameters are left to the replayer (it asks EVERY query of the real
    # alphabet at each Filter step, queries do not change the state), which keeps the schedule space small
    q = ("  Mods <- ModsMC", "  QPrefixes <- QPrefixesMC", "  Limits <- LimitsMC") if not emit else \
        ("  Mods = {\"m1\"}", "  QPrefixes <- QPrefixesOne", "  Limits = {2000}")
    lines = ["SPECIFICATION Spec", "CONSTANTS", "  Conn <- ConnMC", "  Rows <- RowsMC", "  RowMod <- RowModMC",
             "  RowQn <- RowQnMC", "  Batches <- BatchesMC", q[0], q[1], q[2], "  MaxDepth = %d" % depth, "  Dev_Like = %s" % ("TRUE" if dev_like else "FALSE"),
             "CONSTRAINT DepthOK"]
    if view:
        lines.append("VIEW View")
    if invariants:
        lines += ["INVARIANT Atomic", "INVARIANT CoreInv", "INVARIANT FilterExact", "INVARIANT ModulesExact", "PROPERTY Durable"]
    if emit:
        lines.append("INVARIANT Emit")
    lines.append("CHECK_DEADLOCK FALSE")
    return "\n".join(lines) + "\n"


def tlc_behaviours(depth, dev_like, simulate=None, seed=0):
    res = tlc.run_tlc("MTStoreMC", cfg_text=mc_cfg(depth, dev_like, False, True, False), workers=(1 if simulate else 16),
                      simulate=simulate, depth=(depth + 1 if simulate else None), seed=seed, timeout=1800, xmx="16g")
    tlc.check_ok(res, "MTStoreMC export")
    return [b["hist"] for b in res.printed("H")], res


def signature(rec, clause):
    sig = {"clause": clause}
    if clause == "FilterExact":
        # which query could not be explained: describe the over/under-match by its cause
        for e in rec["events"]:
            if e["ev"] == "Filter" and e["p"] != [0]:
                p = "".join(chr(x) for x in e["p"])
                got = {"".join(chr(x) for x in r["qn"]) for r in e["res"]}
                if any(not q.startswith(p) for q in got):
                    wrong = sorted(q for q in got if not q.startswith(p))
                    sig["non_prefix_rows_returned"] = True
                    sig["like_semantics"] = all(
                        len(q) >= len(p) and all(pc in ("_", "%") or pc.lower() == qc.lower() for pc, qc in zip(p, q))
                        or "%" in p for q in wrong)
                    break
    return sig


def main(pid, tier, seed, replay=None):
    core.use_repo()
    run = core.Run(pid, tier, seed)
    q = tier == "quick"
    devs = core.model_deviations(["Dev_Like"])
    plan = []
    apa = None
    if replay:
        with open(replay) as fh:
            scs = [dict(json.load(fh)["case"], tid=1)]
        mc = None
    else:
        mc = tlc.run_tlc("MTStoreMC", cfg_text=mc_cfg(9 if q else 12, False), workers=16, timeout=7200, xmx="24g")
        tlc.check_ok(mc, "MTStoreMC design")
        if not q:      # unbounded: the core's invariants are inductive (Apalache; base case and step)
            base = tlc.run_apalache("MC_MTStoreTxnApa", "TInit", "TIndInv", 0, next_="TNext")
            step = tlc.run_apalache("MC_MTStoreTxnApa", "IndInit", "TIndInv", 1, next_="TNext")
            if not (base[0] and step[0]):
                raise tlc.TLCFailure("MC_MTStoreTxnApa: TIndInv is not inductive\n" + (base[2] if not base[0] else step[2]))
            apa = {"tool": "apalache-mc 0.58", "module": "MC_MTStoreTxnApa (3 connections, 4 batches)",
                   "inductive_invariant": "TTypeOK, TAtomic, LockDiscipline, OneWriter, WithinBatch, DeadHasNoTxn, JournalOnlyWhenDead",
                   "base_s": round(base[1], 1), "step_s": round(step[1], 1)}
        if mc.invariant_violated or mc.property_violated:
            raise tlc.TLCFailure("MTStoreMC: design-level property violated\n" + mc.out[-1500:])
        beh1, _ = tlc_behaviours(3 if q else 4, devs["Dev_Like"])
        plan.append({"family": "all maximal paths of MTStore to depth %d (exhaustive)" % (3 if q else 4), "behaviours": len(beh1)})
        nsim = 1200 if q else 30000
        beh2, _ = tlc_behaviours(10 if q else 14, devs["Dev_Like"], simulate="num=%d" % nsim, seed=seed + 1)
        plan.append({"family": "random schedules of MTStore, depth %d (simulation)" % (10 if q else 14), "behaviours": len(beh2)})
        rng = random.Random(seed)
        if len(beh2) > nsim:
            beh2 = rng.sample(beh2, nsim)
            plan[1]["replayed_sample"] = nsim
        if q and len(beh1) > 1500:
            beh1 = rng.sample(beh1, 1500)
            plan[0]["replayed_sample"] = 1500
        scs = [{"tid": i + 1, "hist": h, "big": i % 40 == 7} for i, h in enumerate(beh1 + beh2)]
        plan.append({"family": "of these, schedules ending with one batch of %d distinct rows" % BIG, "behaviours": sum(1 for x in scs if x["big"])})
    if not replay:
        # batches far larger than any plausible internal chunk / SQLite's page cache, cut at many points of the insert
        # by an interrupted statement or by SIGKILL of the writer, through the connection make_store() hands out
        ncut = 0
        for rows, pre, fracs, acts in ((2400, 300, (0.1, 0.3, 0.45, 0.55, 0.8, 0.97) if q else tuple(x / 20 for x in range(1, 20)), ("abort", "kill")),
                                      (24000, 2500, (0.45, 0.75, 0.93) if q else tuple(x / 10 for x in range(1, 10)), ("kill",))):
            total = calibrate_callbacks(rows)
            for fr in fracs:
                for act in acts:
                    scs.append({"tid": len(scs) + 1, "pre": pre, "rows": rows, "cut": max(1, int(total * fr)), "act": act,
                                "callbacks_uninterrupted": total})
                    ncut += 1
        plan.append({"family": "one batch of 2400 / 24000 rows after a committed batch, its add() cut at many points by an "
                               "interrupted statement or SIGKILL, through make_store()'s connection; counts and integrity before "
                               "and after reopening", "behaviours": ncut})
    if not replay:
        # free-running processes (no scheduling): writers, readers and an independent checker share one file; the trace is
        # their common log, every answer placed somewhere between its QueryStart and its arrival
        n0 = len(scs)
        for j in range(6 if q else 80):
            scs.append({"tid": len(scs) + 1, "writers": 2 + j % 3, "per_writer": 6 if q else 10, "readers": 1 + j % 2,
                        "queries": 24 if q else 60, "seed": seed * 1000 + j})
        plan.append({"family": "free-running processes: 2-4 writers x 6 (10) batches, 1-2 readers, an independent checker, one "
                               "shared log (answers placed between QueryStart and arrival)", "behaviours": len(scs) - n0})
    if not replay:
        for which in ("A", "B"):
            scs.append({"tid": len(scs) + 1, "reldir": which})
        plan.append({"family": "one process, two working directories, make_store() of the same RELATIVE file name in each", "behaviours": 2})
        scs.append({"tid": len(scs) + 1, "open_locked": True})
        plan.append({"family": "make_store() in a second process while another connection holds the database exclusively beyond the "
                               "busy timeout", "behaviours": 1})
    cli_only = bool(replay) and "cli_scenario" in scs[0]
    if cli_only:        # a replay of a command-line observation: that stage is run again (its scenarios are seeded, not stored)
        scs = [{"tid": 1, "reldir": "A"}]
    records = run_behaviours(scs)
    by_tid = {r["tid"]: r for r in records}
    sc_by_tid = {s["tid"]: s for s in scs}
    verdicts, states, trans, wall = tlc.validate_shards("MTStoreTrace", "MTInferTrace.cfg", records, min_per_shard=50)
    for v in verdicts:
        rec = by_tid[v["tid"]]
        for clause in v.get("viol", []):
            sc = sc_by_tid[v["tid"]]
            if "cut" in sc:
                run.violation(dict(signature(rec, clause), big_batch_cut=sc["act"]), {k: sc[k] for k in sc if k != "tid"})
                continue
            if "writers" in sc:
                run.violation(dict(signature(rec, clause), free_running=True), {k: sc[k] for k in sc if k != "tid"})
                continue
            if "reldir" in sc:
                run.violation(dict(signature(rec, clause), relative_store_path=sc["reldir"]), {k: sc[k] for k in sc if k != "tid"})
                continue
            if "open_locked" in sc:
                run.violation(dict(signature(rec, clause), opened_while_locked=True), {k: sc[k] for k in sc if k != "tid"})
                continue
            run.violation(signature(rec, clause), {"hist": sc["hist"], "big": sc.get("big", False)})
    cli_obs = 0
    if not replay or cli_only:
        # the same two clauses seen through the command line: `monkeytype --limit n stub m[:prefix] --sample-count` uses at most
        # min(n, d) traces, `list-modules` prints exactly the modules that have rows (spec MTCli, shared with C10's extended stage)
        from . import replay_cli
        crecs = replay_cli.run_scenarios(20 if q else 300, seed)
        cverd, cstates, ctrans, cwall = tlc.validate_shards("MTCli", "MTInferTrace.cfg", crecs, min_per_shard=100)
        cby = {r["tid"]: r for r in crecs}
        for v in cverd:
            for clause in v.get("viol", []):
                if clause in ("LimitRespected", "ModulesListed"):
                    r = cby[v["tid"]]
                    run.violation({"clause": "CLI:" + clause, "limit": r["limit"], "noprefix": r["noprefix"]},
                                  {"cli_scenario": {k2: r[k2] for k2 in ("cmd", "m", "prefix", "limit", "rows")}})
        states, trans, cli_obs = states + cstates, trans + ctrans, len(crecs)
        plan.append({"family": "through the command line: --limit n (0, 1, 2, 3, 2000) x prefixes, list-modules (spec MTCli)", "behaviours": cli_obs})
    kinds = lambda r: {e["ev"] for e in r["events"]}  # noqa: E731
    nt = {json.dumps(sc_by_tid[r["tid"]].get("hist", sc_by_tid[r["tid"]]), sort_keys=True) for r in records
          if {"AddStart", "Filter"} <= kinds(r) or "Crash" in kinds(r)}
    ex = next((r for r in records if "Crash" in kinds(r)), records[0])
    extended = None
    if not replay:
        from . import replay_logger
        extended = replay_logger.extended_stage(tier, seed)
    cov = {
        "states": (mc.distinct if mc else 0) + states,
        "transitions": (mc.generated if mc else 0) + trans,
        "traces_validated_against_impl": len(records),
        "evaluations": len(records),
        "distinct_nontrivial": len(nt),
        "rule": "one trace = one schedule of MTStore (begin/insert/commit/abort/crash/busy/reopen/filter/list_modules over two "
                "connections) executed on real processes sharing one SQLite file, the progress handler (every %d VM steps) being "
                "the pause / interrupt / SIGKILL point inside SQLiteStore.add; after every step the table is read through an "
                "independent connection (row counts, PRAGMA integrity_check); non-trivial = has both an add and a query, or a "
                "crash; distinct by schedule" % TICK,
        "samples": [core.trim({"events": [{k: v for k, v in e.items() if k not in ("rows", "res")} for e in ex["events"]]}, 2500)],
        "plan": plan,
        "extended_spec": extended,
        "crashes": sum(1 for r in records for e in r["events"] if e["ev"] == "Crash"),
        "aborts_or_busy": sum(1 for r in records for e in r["events"] if e["ev"] == "AddEnd" and not e["ok"]),
        "interrupted_adds": sum(1 for r in records for e in r["events"] if e["ev"] == "AddEnd" and "interrupt" in e["err"]),
        "busy_adds": sum(1 for r in records for e in r["events"] if e["ev"] == "AddEnd" and "locked" in e["err"]),
        "committed_adds": sum(1 for r in records for e in r["events"] if e["ev"] == "AddEnd" and e["ok"]),
        "mc": None if mc is None else {"spec": "MTStoreMC, Dev_Like off: Atomic, FilterExact, ModulesExact, Durable",
                                       "distinct_states": mc.distinct, "states_generated": mc.generated, "wall_s": round(mc.wall, 1),
                                       "unbounded_core": apa},
        "trace_validation": {"spec": "MTStoreTrace", "tlc_states": states, "wall_s": round(wall, 1)},
        "exhaustive": False,
    }
    return run.finish(cov)
