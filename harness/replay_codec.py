"""C08: types and call traces through the real type_to_json/type_from_json and CallTraceRow;
TLC decides RoundTrip / EncodeTotal / StructureOnly / TraceRoundTrip (MTCodecP) and compares the
real JSON with the spec's own Encode/Decode (MTCodec)."""
import concurrent.futures
import itertools
import json
import random

from . import absmodel, core, envgen, tlc, universe
from .absmodel import T, canon

TDEPS = ["MTValues", "MTTypeUniverse"]
VDEPS = ["MTValues", "MTUniverse"]


def abs_enc(d):
    mq = "%s:%s" % (d["module"], d["qualname"])
    if d.get("is_typed_dict"):
        return T("enctd", mq, [], sorted((T("encf", k, [abs_enc(v)]) for k, v in d["elem_types"].items()), key=canon))
    if "elem_types" in d:
        elems = [abs_enc(e) for e in d["elem_types"]]
        if mq == "typing:Union":
            uniq = {canon(e): e for e in elems}
            return T("encu", mq, [], [uniq[k] for k in sorted(uniq)])
        return T("enc", mq, elems)
    return T("enc0", mq)


def fixture_funcs():
    from mtfx import funcs
    return {
        "mod_func": funcs.mod_func, "vocab": funcs.vocab, "vocab2": funcs.vocab2, "wrapped": funcs.wrapped.__wrapped__,
        "wrapped_twice": funcs.wrapped_twice.__wrapped__.__wrapped__, "gen_func": funcs.gen_func,
        "coro_func": funcs.coro_func, "K.inst": funcs.K.__dict__["inst"], "K.cm": funcs.K.__dict__["cm"].__func__,
        "K.sm": funcs.K.__dict__["sm"].__func__, "K.prop": funcs.K.__dict__["prop"].fget,
        "K.wrapped_meth": funcs.K.__dict__["wrapped_meth"].__wrapped__,
        "K.Nested.meth": funcs.K.Nested.__dict__["meth"], "K.Nested.nsm": funcs.K.Nested.__dict__["nsm"].__func__,
        "KSub.inst": funcs.KSub.__dict__["inst"],
    }


def _mk_td():
    from monkeytype.typing import make_typed_dict
    return lambda req, opt: make_typed_dict(required_fields=req, optional_fields=opt)


def run_type(tid, rt, variants):
    """rt: real type; variants: [(label, real type built another way)]"""
    from monkeytype.encoding import type_from_json, type_to_dict, type_to_json
    rec = {"tid": tid, "ev": "T", "ty": absmodel.abs_type(rt), "back": absmodel.ABSENT, "err": "NONE",
           "enc": T("none"), "encs": [], "labels": []}
    try:
        js = type_to_json(rt)
        rec["enc"] = abs_enc(type_to_dict(rt))
        back = type_from_json(js)
        rec["back"] = absmodel.abs_type(back)
        rec["encs"].append(js)
        rec["labels"].append("original")
        for label, v in variants:
            rec["encs"].append(type_to_json(v))
            rec["labels"].append(label)
        rec["encs"].append(type_to_json(back))
        rec["labels"].append("decoded")
    except Exception as e:
        rec["err"] = type(e).__name__
    return rec


def _abs_trace(tr, orig_func=None):
    out = {"args": [{"n": n, "ty": absmodel.abs_type(t)} for n, t in sorted(tr.arg_types.items())],
           "ret": absmodel.ABSENT if tr.return_type is None else absmodel.abs_type(tr.return_type),
           "yld": absmodel.ABSENT if tr.yield_type is None else absmodel.abs_type(tr.yield_type)}
    if orig_func is not None:
        out["same"] = tr.func is orig_func
    return out


def run_call(tid, fname, func, args, ret, yld, args2=None):
    from monkeytype.encoding import CallTraceRow
    from monkeytype.tracing import CallTrace
    tr = CallTrace(func, args, ret, yld)
    rec = {"tid": tid, "ev": "C", "func": fname, "orig": _abs_trace(tr), "err": "NONE", "rows_equal": True,
           "back": {"same": False, "args": [], "ret": absmodel.ABSENT, "yld": absmodel.ABSENT}}
    try:
        row = CallTraceRow.from_trace(tr)
        if args2 is not None:
            # the same trace with structurally equal types built along another construction order must give the same row
            row_b = CallTraceRow.from_trace(CallTrace(func, dict(reversed(list(args2.items()))), ret, yld))
            rec["rows_equal"] = (row.arg_types, row.return_type, row.yield_type) == (row_b.arg_types, row_b.return_type, row_b.yield_type)
        # the row goes through the same text columns as in the store
        row2 = CallTraceRow(row.module, row.qualname, row.arg_types, row.return_type, row.yield_type)
        rec["back"] = _abs_trace(row2.to_trace(), func)
    except Exception as e:
        rec["err"] = type(e).__name__
    return rec


def _run_chunk(chunk):
    core.use_repo()
    envgen.load_fixture_classes()
    from monkeytype.typing import get_type, shrink_types
    mk = _mk_td()
    funcs = fixture_funcs()
    out = []
    for job in chunk:
        if job["kind"] == "type":
            rt = absmodel.real_type(job["t"], make_td=mk)
            variants = [("rebuilt", absmodel.real_type(job["t"], make_td=mk)),
                        ("union_members_reversed", absmodel.real_type(job["t"], make_td=mk, reverse=True)),
                        ("typed_dict_keys_reversed", absmodel.real_type(job["t"], make_td=mk, reverse_keys=True))]
            out.append(run_type(job["tid"], rt, variants))
        elif job["kind"] == "vals":
            reals = [absmodel.real_value(v) for v in job["vals"]]
            k = job["k"]
            rt = shrink_types([get_type(x, k) for x in reals], k)
            rt2 = shrink_types([get_type(x, k) for x in reversed(reals)], k)
            out.append(run_type(job["tid"], rt, [("values_seen_in_reverse_order", rt2)]))
        elif job["kind"] == "call_rebound":
            # decode a trace of mod_func, then re-bind the name to a NEW function object (a reloaded module, a re-run cell)
            # and decode a trace of that one: it must come back as the function the name denotes NOW
            import types as _types
            from mtfx import funcs as fm
            from monkeytype.encoding import CallTraceRow
            from monkeytype.tracing import CallTrace
            orig = fm.mod_func
            try:
                CallTraceRow.from_trace(CallTrace(orig, {"a": int}, int, None)).to_trace()
                new = _types.FunctionType(orig.__code__, orig.__globals__, "mod_func", orig.__defaults__)
                new.__qualname__, new.__module__ = orig.__qualname__, orig.__module__
                fm.mod_func = new
                out.append(run_call(job["tid"], "mod_func(re-bound)", new, {"a": int, "b": str}, int, None))
            finally:
                fm.mod_func = orig
        else:
            f = funcs[job["func"]]
            ts = [absmodel.real_type(t, make_td=mk) for t in job["types"]]
            names = list(f.__code__.co_varnames[:f.__code__.co_argcount + f.__code__.co_kwonlyargcount]) or ["x"]
            args = {n: ts[i % len(ts)] for i, n in enumerate(names)}
            ts2 = [absmodel.real_type(t, make_td=mk, reverse_keys=True) for t in job["types"]]
            args2 = {n: ts2[i % len(ts2)] for i, n in enumerate(names)}
            sel = {"absent": None, "none": type(None), "type": ts[-1]}
            out.append(run_call(job["tid"], job["func"], f, args, sel[job["ret"]], sel[job["yld"]], args2))
    return out


def run_jobs(jobs, procs=16):
    chunks = [jobs[i::procs] for i in range(procs)]
    out = []
    with concurrent.futures.ProcessPoolExecutor(max_workers=procs) as ex:
        for recs in ex.map(_run_chunk, [c for c in chunks if c]):
            out.extend(recs)
    return out


def gen_jobs(tier, seed, env_text):
    TU = lambda n: universe.export("MTRewriteExport", n, TDEPS, env_text)  # noqa: E731
    VU = lambda n: universe.export("MTInferExport", n, VDEPS, env_text)  # noqa: E731
    rng = random.Random(seed)
    jobs, plan = [], []

    def add(label, items):
        n0 = len(jobs)
        for it in items:
            it["tid"] = len(jobs) + 1
            jobs.append(it)
        plan.append({"family": label, "cases": len(jobs) - n0})

    t1 = TU("t1small") if tier == "quick" else TU("t1full")
    big, wrap3, tds = TU("big"), TU("wrap3"), TU("tds")
    small1, wide, tiny2, full1 = VU("small1"), VU("wide"), VU("tiny2"), VU("full1")
    q = tier == "quick"
    STRT0, INTT0 = T("cls", "str"), T("cls", "int")
    add("type universe t1 (exhaustive)", [{"kind": "type", "t": t} for t in t1])
    add("big unions", [{"kind": "type", "t": t} for t in (rng.sample(big, 1500) if q else big)])
    add("depth-3 types", [{"kind": "type", "t": t} for t in (rng.sample(wrap3, 800) if q else wrap3)])
    add("TypedDict types (exhaustive)", [{"kind": "type", "t": t} for t in tds])
    # records whose keys are the words of the store's own JSON vocabulary
    voc = [T("td", "", [], [T("req", "module", [STRT0]), T("req", "qualname", [STRT0])]),
           T("td", "", [], [T("req", "module", [INTT0]), T("opt", "qualname", [STRT0]), T("req", "elem_types", [T("list", "", [INTT0])])]),
           T("td", "", [], [T("req", "is_typed_dict", [T("cls", "bool")]), T("req", "elem_types", [T("td", "", [], [T("req", "module", [STRT0])])])]),
           T("td", "", [], [T("opt", "qualname", [STRT0])]), T("td", "", [], [T("req", "elem_types", [INTT0]), T("req", "qualname", [INTT0]), T("req", "module", [INTT0])])]
    add("TypedDicts whose keys are words of the JSON vocabulary (module, qualname, elem_types, is_typed_dict), bare and nested",
        [{"kind": "type", "t": sh(t)} for t in voc for sh in (lambda x: x, lambda x: T("list", "", [x]), lambda x: T("dict", "", [STRT0, x]),
                                                                 lambda x: T("union", "", [], [x, INTT0]))])
    add("rewritten forms: Tuple[T, ...]", [{"kind": "type", "t": T("tuplevar", "", [t])} for t in t1[:40]])
    look = [T("cls", "mtfx.lookalikes." + n) for n in ("TimeoutError", "Warning", "frozenset", "NoneType", "List", "Holder.int", "Union", "Set", "Dict",
                                                             "Generator", "Iterator", "TypedDict", "Tuple")]
    look.append(T("cls", "mtfx.shapes.FalsyCls"))        # a class object whose truth value is False
    look += [T("cls", "mtfx.shapes.AnyProxy"), T("cls", "mtfx.shapes.AnyHolder.Lazy")]     # classes deriving from typing.Any
    STRT, INTT = T("cls", "str"), T("cls", "int")
    shapes_of = [lambda c: c, lambda c: T("typeof", "", [c]), lambda c: T("list", "", [c]), lambda c: T("dict", "", [STRT, c]),
                 lambda c: T("union", "", [], [c, INTT]), lambda c: T("td", "", [], [T("req", "x", [c])]),
                 lambda c: T("tuple", "", [c, T("cls", "NoneType")])]
    add("application classes named like builtins / typing names, bare and inside every shape",
        [{"kind": "type", "t": sh(c)} for c in look for sh in shapes_of]
        + [{"kind": "type", "t": T("union", "", [], [look[0], T("cls", "TimeoutError")])},
           {"kind": "type", "t": T("union", "", [], [look[3], T("cls", "NoneType")])}])
    ks = [0, 1, 2, 3, 10]
    add("inferred from singles full1+wide+tiny2, all k",
        [{"kind": "vals", "vals": [v], "k": k} for v in full1 + wide + tiny2 for k in (ks if not q else [0, 3])])
    vp = list(itertools.combinations(small1, 2))
    add("inferred from value pairs small1", [{"kind": "vals", "vals": list(p), "k": k}
                                            for p in (rng.sample(vp, 4000) if q else vp) for k in (0, 3)])
    add("inferred from random multisets",
        [{"kind": "vals", "vals": rng.sample(full1 + wide + tiny2, rng.randint(2, 6)), "k": rng.choice(ks)}
         for _ in range(2000 if q else 40000)])
    fnames = ["mod_func", "vocab", "vocab2", "wrapped", "wrapped_twice", "gen_func", "coro_func", "K.inst", "K.cm", "K.sm", "K.prop", "K.wrapped_meth",
              "K.Nested.meth", "K.Nested.nsm", "KSub.inst"]
    nf = lambda t: json.dumps(t).count('"k": "req"') + json.dumps(t).count('"k": "opt"')  # noqa: E731
    many_keys = sorted(tds, key=lambda t: (-nf(t), canon(t)))[:12]       # TypedDicts with several keys first
    tpool = many_keys + tds[:8] + rng.sample(t1, 40 if q else 400) + [T("cls", "mtfx.shapes.FalsyCls")] + voc[:2]
    add("call traces: every fixture function x ret/yield in {absent, NoneType, type}",
        [{"kind": "call", "func": f, "types": [t, rng.choice(tpool)], "ret": r, "yld": y}
         for f in fnames for t in tpool for r in ("absent", "none", "type") for y in ("absent", "none", "type")])
    add("a function name re-bound to a new function object between two decodes in one process", [{"kind": "call_rebound"} for _ in range(3)])
    return jobs, plan


def _json_diff_keys(a, b, key="", acc=None):
    """Names of the JSON object keys under which two documents differ ('<shape>' when their structure differs)."""
    acc = set() if acc is None else acc
    if isinstance(a, dict) and isinstance(b, dict) and set(a) == set(b):
        for k in a:
            _json_diff_keys(a[k], b[k], k, acc)
    elif isinstance(a, list) and isinstance(b, list) and len(a) == len(b):
        for x, y in zip(a, b):
            _json_diff_keys(x, y, key, acc)
    elif type(a) is not type(b) or isinstance(a, (dict, list)):
        acc.add("<shape>")
    elif a != b:
        acc.add(key)
    return acc


def signature(rec, clause):
    sig = {"clause": clause}
    if rec["ev"] == "T":
        if clause == "StructureOnly":
            sig["variants_differing"] = sorted({lab for lab, e in zip(rec["labels"], rec["encs"]) if e != rec["encs"][0]})
            sig["has_typed_dict"] = "td" in json.dumps(rec["ty"]) and '"k": "td"' in json.dumps(rec["ty"])
        if clause == "EncodeTotal":
            sig["err"] = rec["err"]
            sig["has_tuplevar"] = '"k": "tuplevar"' in json.dumps(rec["ty"])
    else:
        sig["func"] = rec["func"]
        sig["err"] = rec["err"]
    return sig


def main(pid, tier, seed, replay=None):
    core.use_repo()
    envgen.load_fixture_classes()
    env_text = envgen.mtenv_text()
    run = core.Run(pid, tier, seed)
    if replay:
        with open(replay) as fh:
            jobs, plan = [json.load(fh)["case"]], [{"family": "replay", "cases": 1}]
    else:
        jobs, plan = gen_jobs(tier, seed, env_text)
    records = run_jobs(jobs)
    env_text = envgen.mtenv_text()
    by_tid = {r["tid"]: r for r in records}
    job_by_tid = {j["tid"]: j for j in jobs}
    devs = core.model_deviations(["Dev_EllipsisEncode"])
    cfg = "SPECIFICATION Spec\nCONSTANTS\n  Dev_EllipsisEncode = %s\nCHECK_DEADLOCK FALSE\n" % (
        "TRUE" if devs["Dev_EllipsisEncode"] else "FALSE")
    slim = [{k: v for k, v in r.items() if k not in ("labels", "func")} for r in records]
    verdicts, states, trans, wall = tlc.validate_shards(
        "MTCodecTrace", None, slim, extra_files={"MTEnv.tla": env_text, "MTCodecTrace.cfg": cfg})
    for v in verdicts:
        rec = by_tid[v["tid"]]
        if v.get("drift"):
            run.drift += 1
            if len(run.notes) < 10:
                run.notes.append(core.trim({k: rec.get(k) for k in ("ty", "enc", "back", "err")}, 2500))
        for clause in v.get("viol", []):
            if clause == "StructureOnly":  # one violation per differing construction
                for lab, e in zip(rec["labels"], rec["encs"]):
                    if e != rec["encs"][0]:
                        vio = {"clause": clause, "variant": lab, "has_typed_dict": '"k": "td"' in json.dumps(rec["ty"]),
                               "has_union": '"k": "union"' in json.dumps(rec["ty"])}
                        if lab == "decoded":     # the recorded finding is about the module field only
                            vio["differs_in"] = sorted(_json_diff_keys(json.loads(rec["encs"][0]), json.loads(e)))
                        run.violation(vio, job_by_tid[v["tid"]])
            else:
                run.violation(signature(rec, clause), job_by_tid[v["tid"]])
    nt = {canon(r["ty"]) for r in records if r["ev"] == "T" and r["ty"]["k"] not in ("cls", "any")}
    nt |= {json.dumps(r["orig"], sort_keys=True) + r["func"] for r in records if r["ev"] == "C"}
    ex = next(r for r in records if r["ev"] == "T" and '"td"' in json.dumps(r["ty"]))
    cov = {
        "states": states, "transitions": trans,
        "traces_validated_against_impl": len(records),
        "evaluations": len(records), "distinct_nontrivial": len(nt),
        "rule": "one trace = one type (or call trace) through the real type_to_json/type_from_json (CallTraceRow.from_trace/"
                "to_trace), encoded again along other construction orders; types from TLC-exported universes and from really "
                "inferred types; non-trivial = a generic/union/TypedDict type or a call trace; distinct by abstract type / trace",
        "samples": [core.trim({k: ex[k] for k in ("ty", "enc", "back", "err")}, 2000)],
        "plan": plan,
        "trace_validation": {"spec": "MTCodecTrace (P: MTCodecP; I: MTCodec Encode/Decode recomputed by TLC on every record)",
                             "tlc_states": states, "wall_s": round(wall, 1)},
        "drift_samples": run.notes,
        "exhaustive": False,
    }
    return run.finish(cov)
