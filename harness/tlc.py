"""Running TLC and reading what it printed.

Every TLC run happens in a fresh scratch directory (outside /repo and /verif) that receives a
copy of /verif/specs/*.tla plus any generated modules, and is removed afterwards.
"""
import concurrent.futures
import json
import os
import re
import shutil
import subprocess
import tempfile
import time

VERIF = os.path.dirname(os.path.dirname(os.path.abspath(__file__)))
SPECS = os.path.join(VERIF, "specs")
JAR = "/opt/veriftools/tla/tla2tools.jar:/opt/veriftools/tla/CommunityModules-deps.jar"


class TLCFailure(Exception):
    """Machinery failure (exit 2): TLC/SANY error that is not an invariant verdict."""


class TLCResult:
    def __init__(self, out, rc, wall):
        self.out = out
        self.rc = rc
        self.wall = wall
        m = re.findall(r"(\d+) states generated, (\d+) distinct states found", out)
        self.generated = int(m[-1][0]) if m else 0
        self.distinct = int(m[-1][1]) if m else 0
        m = re.search(r"The depth of the complete state graph search is (\d+)", out)
        self.depth = int(m.group(1)) if m else None
        self.invariant_violated = re.findall(r"Invariant (\S+) is violated", out)
        self.property_violated = re.findall(r"(?:Action property|Temporal property|property) (\S+) (?:is|was) violated", out)
        self.finished = "Model checking completed" in out or "Finished in" in out
        self.errors = [l for l in out.splitlines() if l.startswith("Error:")]

    def printed(self, tag):
        """All values printed as  <<"TAG", "<json>">>  by PrintT(<<tag, ToJson(x)>>)."""
        res = []
        pat = re.compile(r'<<"%s",\s*"((?:[^"\\]|\\.)*)">>' % re.escape(tag))
        for m in pat.finditer(self.out):
            s = m.group(1)
            s = s.replace('\\"', '"').replace("\\\\", "\\")
            try:
                res.append(json.loads(s))
            except Exception as e:  # pragma: no cover
                raise TLCFailure("cannot parse printed %s value: %s: %r" % (tag, e, s[:200]))
        return res

    def coverage(self):
        """Per-action counts from -coverage output:  <Action line ... of module M>: distinct:total"""
        cov = {}
        for m in re.finditer(r"<(\w+) line \d+, col \d+ to line \d+, col \d+ of module (\w+)>: (\d+):(\d+)", self.out):
            cov["%s.%s" % (m.group(2), m.group(1))] = [int(m.group(3)), int(m.group(4))]
        return cov


def scratch_dir(prefix="mtverif_"):
    """A scratch directory that is gone when the process that asked for it ends (worker processes of a pool included:
    multiprocessing runs Finalize objects where atexit handlers are skipped)."""
    base = os.environ.get("VERIF_SCRATCH") or tempfile.gettempdir()
    d = tempfile.mkdtemp(prefix=prefix, dir=base)
    try:
        from multiprocessing import util
        util.Finalize(None, shutil.rmtree, args=(d, True), exitpriority=1)
    except Exception:
        pass
    return d


def run_apalache(root, init, inv, length, timeout=900, next_=None):
    """apalache-mc check --init=<init> --inv=<inv> --length=<length> on a module of /verif/specs.
    Returns (ok, seconds, tail of the output); raises TLCFailure when the tool itself fails."""
    d = scratch_dir("mtverif_apa_")
    try:
        for f in os.listdir(SPECS):
            if f.endswith(".tla"):
                shutil.copy(os.path.join(SPECS, f), os.path.join(d, f))
        t0 = time.time()
        p = subprocess.run(["apalache-mc", "check", "--init=" + init, "--inv=" + inv, "--length=%d" % length] +
                           (["--next=" + next_] if next_ else []) +
                           ["--out-dir=" + os.path.join(d, "out"), root + ".tla"], cwd=d, stdout=subprocess.PIPE,
                           stderr=subprocess.STDOUT, text=True, errors="replace", timeout=timeout)
        out = p.stdout
        if "EXITCODE: OK" in out:
            return True, time.time() - t0, out[-600:]
        if "EXITCODE: ERROR (12)" in out:      # a counterexample
            return False, time.time() - t0, out[-1500:]
        raise TLCFailure("apalache-mc failed on %s\n%s" % (root, out[-1500:]))
    finally:
        shutil.rmtree(d, ignore_errors=True)


def run_tlc(root, cfg=None, cfg_text=None, extra_files=None, env=None, workers=1, simulate=None,
            depth=None, seed=None, coverage=False, timeout=3600, xmx="3g", deque=False,
            keep_dir=None, deadlock=True, extra_args=()):
    """Run TLC on module `root` (a name in /verif/specs or in extra_files)."""
    d = keep_dir or scratch_dir()
    try:
        for f in os.listdir(SPECS):
            if f.endswith(".tla") or f.endswith(".cfg"):
                shutil.copy(os.path.join(SPECS, f), os.path.join(d, f))
        for name, text in (extra_files or {}).items():
            with open(os.path.join(d, name), "w") as fh:
                fh.write(text)
        cfgname = cfg or (root + ".cfg")
        if cfg_text is not None:
            cfgname = root + "_gen.cfg"
            with open(os.path.join(d, cfgname), "w") as fh:
                fh.write(cfg_text)
        cmd = ["java", "-XX:+UseParallelGC" if workers > 1 else "-XX:+UseSerialGC", "-Xmx" + xmx, "-Xss16m",
               "-Djava.io.tmpdir=" + d]        # (TLC makes a tlc-<n> directory of its own per run: keep it inside ours)
        if deque:
            cmd.append("-Dtlc2.tool.queue.IStateQueue=StateDeque")
        cmd += ["-cp", JAR, "tlc2.TLC", "-workers", str(workers), "-metadir", os.path.join(d, "states"),
                "-noGenerateSpecTE", "-config", cfgname]
        if not deadlock:
            cmd.append("-deadlock")
        if simulate:
            cmd += ["-simulate", simulate]
        if depth is not None:
            cmd += ["-depth", str(depth)]
        if seed is not None:
            cmd += ["-seed", str(seed)]
        if coverage:
            cmd += ["-coverage", "1"]
        cmd += list(extra_args)
        cmd.append(root + ".tla")
        e = dict(os.environ)
        e.update(env or {})
        t0 = time.time()
        try:
            p = subprocess.run(cmd, cwd=d, env=e, stdout=subprocess.PIPE, stderr=subprocess.STDOUT,
                               timeout=timeout, text=True, errors="replace")
        except subprocess.TimeoutExpired as ex:
            raise TLCFailure("TLC timed out after %ss on %s" % (timeout, root)) from ex
        return TLCResult(p.stdout, p.returncode, time.time() - t0)
    finally:
        if keep_dir is None:
            shutil.rmtree(d, ignore_errors=True)


def check_ok(res, what):
    """Raise TLCFailure unless the run completed without TLC-level errors."""
    bad = [l for l in res.errors if "violated" not in l]
    if res.rc != 0 and not res.invariant_violated and not res.property_violated:
        raise TLCFailure("%s: TLC exit %s\n%s" % (what, res.rc, res.out[-3000:]))
    if bad and not res.invariant_violated and not res.property_violated:
        raise TLCFailure("%s: TLC error\n%s" % (what, res.out[-3000:]))
    return res


def validate_shards(root, cfg, records, header=None, shards=16, tag="V", extra_files=None,
                    timeout=3600, min_per_shard=200, xmx="2g", deque=False, max_per_shard=2500):
    """Batch trace validation: split `records` (list of dicts, each with 'tid') into shards,
    run one single-worker TLC per shard in parallel, return (verdicts, states, transitions, wall).

    The trace spec prints  <<"V", ToJson([tid |-> .., viol |-> {..}, drift |-> ..])>>  for every
    trace and  <<"DONE", ToJson([n |-> count])>>  at the end; a shard whose DONE count differs from
    the number of records sent is a machinery failure."""
    n = len(records)
    if n == 0:
        return [], 0, 0, 0.0
    workers = shards
    shards = max(1, min(shards, n // min_per_shard or 1))
    # TLC reads a shard's ndjson file into one sequence (deep recursion for very long files): keep shards bounded and
    # run them sixteen at a time
    if n // shards > max_per_shard:
        shards = -(-n // max_per_shard)
    groups = [records[i::shards] for i in range(shards)]
    d = scratch_dir("mtverif_val_")
    t0 = time.time()
    try:
        files = []
        for i, g in enumerate(groups):
            fn = os.path.join(d, "trace_%d.ndjson" % i)
            with open(fn, "w") as fh:
                if header is not None:
                    fh.write(json.dumps(header) + "\n")
                for r in g:
                    fh.write(json.dumps(r) + "\n")
            files.append(fn)

        def one(i):
            res = run_tlc(root, cfg=cfg, env={"TRACE_FILE": files[i]}, workers=1, timeout=timeout,
                          extra_files=extra_files, xmx=xmx, deadlock=False, deque=deque)
            check_ok(res, "%s shard %d" % (root, i))
            if res.invariant_violated:
                raise TLCFailure("%s shard %d: trace spec invariant %s violated (trace actions must be total)\n%s"
                                 % (root, i, res.invariant_violated, res.out[-2000:]))
            done = res.printed("DONE")
            if not done or done[-1].get("n") != len(groups[i]):
                raise TLCFailure("%s shard %d: validated %s of %d records\n%s"
                                 % (root, i, done[-1] if done else None, len(groups[i]), res.out[-3000:]))
            return res

        verdicts, states, trans = [], 0, 0
        with concurrent.futures.ThreadPoolExecutor(max_workers=min(shards, max(1, workers))) as ex:
            for res in ex.map(one, range(shards)):
                verdicts.extend(res.printed(tag))
                states += res.distinct
                trans += res.generated
        return verdicts, states, trans, time.time() - t0
    finally:
        shutil.rmtree(d, ignore_errors=True)
