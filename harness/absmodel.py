"""Abstract vocabulary shared by the TLA+ specs and the Python harness (DESIGN.md section 3).

Every value and every type is a JSON object with the same four fields

    {"k": kind, "n": name, "a": [sub-terms, ordered], "u": [sub-terms, unordered]}

which TLC reads as the homogeneous record [k, n, a, u] (u is turned into a set by the
trace specs).  This module is the *trusted projection*: it never imports monkeytype.

Values  k: atom(n=class) | str(n=content) | classobj(n=class) | func(n=flavour) | genobj
           | list | set | tuple | dict | ddict (a = <<pair...>>) | pair (a = <<key, val>>)
Types   k: any | cls(n) | typeof(a=<<T>>) | callable | iterator(a=<<T>>) | generator(a=<<Y,S,R>>)
           | list | set | dict | ddict | tuple(a = members) | tuplevar(a=<<T>>)
           | union(u = members) | td(u = {fld}) | fld(n=key, a=<<T>>, k = "req"|"opt")
           | named(n, u = fields) | fwd(n) | bare(n) | newtype(n) | other(n)
"""
import collections
import sys
import types
import typing

try:  # only used to recognise TypedDict classes; not part of monkeytype
    from mypy_extensions import _TypedDictMeta as _MypyTDMeta  # type: ignore
except Exception:  # pragma: no cover
    _MypyTDMeta = ()
_TypingTDMeta = getattr(typing, "_TypedDictMeta", ())

NoneType = type(None)


def T(k, n="", a=(), u=()):
    return {"k": k, "n": n, "a": list(a), "u": list(u)}


ABSENT = T("absent")
ANY = T("any")


# --------------------------------------------------------------------------------------
# class naming / class table
# --------------------------------------------------------------------------------------
class ClassTable:
    """Collects every class that a projection meets: name -> list of MRO names."""

    def __init__(self):
        self.mro = {}
        self.bases = {}
        self.modqn = {}
        self.cls = {}

    def name(self, c):
        n = class_name(c)
        if n not in self.mro:
            self.mro[n] = [class_name(b) for b in type.mro(c)] if isinstance(c, type) else [n]
            self.bases[n] = [class_name(b) for b in getattr(c, "__bases__", ())]
            self.cls[n] = c
            self.modqn[n] = "%s:%s" % (getattr(c, "__module__", "builtins"), getattr(c, "__qualname__", n))
            for b in type.mro(c)[1:]:
                self.name(b)
        return n


def class_name(c):
    mod = getattr(c, "__module__", None)
    qn = getattr(c, "__qualname__", None) or getattr(c, "__name__", repr(c))
    if mod in ("builtins", None):
        return qn
    return mod + "." + qn


TABLE = ClassTable()
for _c in (object, int, str, bool, float, bytes, NoneType, list, dict, set, tuple, type,
           collections.defaultdict, types.FunctionType, types.GeneratorType,
           types.BuiltinFunctionType, types.MethodType):
    TABLE.name(_c)


# --------------------------------------------------------------------------------------
# values
# --------------------------------------------------------------------------------------
_FUNC_TYPES = (types.FunctionType, types.MethodType, types.BuiltinFunctionType,
               types.BuiltinMethodType)


def abs_value(x, table=TABLE, depth=0):
    """Project a live Python object.  Uses type(x) only (never x.__class__), never calls
    protocol methods of container *subclasses* (they are opaque atoms)."""
    if depth > 40:
        raise ValueError("value too deep / cyclic")
    t = type(x)
    if t is str:
        return T("str", armour(x))
    if isinstance(t, type) and issubclass(t, str) and t.__hash__ is str.__hash__:
        # an instance of a str subclass: its text plus its exact class (a = <<atom(class)>>)
        return T("str", armour(str.__str__(x)), [T("atom", table.name(t))])
    if isinstance(t, type) and issubclass(t, type):  # x is a class object
        return T("classobj", table.name(x))
    if t in _FUNC_TYPES:
        return T("func", t.__name__)
    if t is types.GeneratorType:
        return T("genobj")
    if t is list:
        return T("list", "", [abs_value(e, table, depth + 1) for e in x])
    if t is tuple:
        return T("tuple", "", [abs_value(e, table, depth + 1) for e in x])
    if t is set:
        elems = [abs_value(e, table, depth + 1) for e in x]
        return T("set", "", sorted(elems, key=canon))
    if t is dict or t is collections.defaultdict:
        pairs = [T("pair", "", [abs_value(k, table, depth + 1), abs_value(v, table, depth + 1)])
                 for k, v in dict.items(x)]
        return T("dict" if t is dict else "ddict", "", pairs)
    return T("atom", table.name(t))


def canon(term):
    """Deterministic string for sorting / hashing abstract terms (u is order-free)."""
    return "%s(%s|%s|%s)" % (
        term["k"], term["n"],
        ",".join(canon(x) for x in term["a"]),
        ",".join(sorted(canon(x) for x in term["u"])),
    )


# --------------------------------------------------------------------------------------
# types
# --------------------------------------------------------------------------------------
def _is_typeddict(t):
    return (_MypyTDMeta and isinstance(t, _MypyTDMeta)) or (_TypingTDMeta and isinstance(t, _TypingTDMeta))


def armour(s):
    """Text as the specs see it: ASCII only (TLC's Json module does not survive other characters). Injective: every other
    character c becomes {u+XXXX}; the specs treat strings as opaque, so equality is all that matters."""
    if s.isascii():
        return s
    return "".join(c if c.isascii() else "{u+%04x}" % ord(c) for c in s)


def unarmour(s):
    import re
    return re.sub(r"\{u\+([0-9a-f]{4,6})\}", lambda m: chr(int(m.group(1), 16)), s) if "{u+" in s else s


def _field_name(k):
    """A TypedDict field name as text: the key itself when it is a str (a str subclass instance: its plain text), otherwise
    a marker naming the key's class - the projection stays total when an implementation lets a non-string key through."""
    if type(k) is str:
        return armour(k)
    if isinstance(type(k), type) and issubclass(type(k), str):
        return armour(str.__str__(k))
    return "<non-str key:%s>" % type(k).__name__


def abs_type(t, table=TABLE, depth=0):
    """Project a typing object into the abstract type grammar (independent of monkeytype.compat)."""
    if depth > 40:
        raise ValueError("type too deep")
    if t is typing.Any:
        return T("any")
    if t is None or t is NoneType:
        return T("cls", "NoneType")
    if isinstance(t, str):
        return T("fwd", t)
    if isinstance(t, typing.ForwardRef):
        return T("fwd", t.__forward_arg__)
    if isinstance(t, typing.TypeVar):
        return T("other", "typevar:" + t.__name__)
    if hasattr(t, "__supertype__"):
        return T("newtype", getattr(t, "__name__", "?"))
    if _is_typeddict(t):
        ann = dict(getattr(t, "__annotations__", {}))
        if t.__name__ == "DUMMY_NAME" and set(ann) == {"required_fields", "optional_fields"}:
            req = dict(ann["required_fields"].__annotations__)
            opt = dict(ann["optional_fields"].__annotations__)
            flds = [T("req", _field_name(k), [abs_type(v, table, depth + 1)]) for k, v in req.items()]
            flds += [T("opt", _field_name(k), [abs_type(v, table, depth + 1)]) for k, v in opt.items()]
            return T("td", "", [], sorted(flds, key=canon))
        total = getattr(t, "__total__", True)
        flds = [T("req" if total else "opt", _field_name(k), [abs_type(v, table, depth + 1)]) for k, v in ann.items()]
        return T("named", t.__name__, [], sorted(flds, key=canon))
    origin = typing.get_origin(t)
    if origin is typing.Union or (hasattr(types, "UnionType") and isinstance(t, types.UnionType)):
        members = {}
        for m in typing.get_args(t):
            am = abs_type(m, table, depth + 1)
            for x in (am["u"] if am["k"] == "union" else [am]):
                members[canon(x)] = x
        ms = [members[k] for k in sorted(members)]
        return ms[0] if len(ms) == 1 else T("union", "", [], ms)
    parametrised = isinstance(t, (typing._GenericAlias, types.GenericAlias))  # type: ignore[attr-defined]
    if t is typing.Callable or origin is collections.abc.Callable:
        if parametrised and typing.get_args(t):
            return T("other", "callable_params")
        return T("callable")
    if origin is not None and not parametrised:
        # bare special alias such as typing.List, typing.Dict, typing.Tuple
        return T("bare", getattr(t, "_name", None) or origin.__name__)
    if origin is not None:
        args = t.__args__
        sub = lambda x: abs_type(x, table, depth + 1)  # noqa: E731
        if origin is list and len(args) == 1:
            return T("list", "", [sub(args[0])])
        if origin is set and len(args) == 1:
            return T("set", "", [sub(args[0])])
        if origin is dict and len(args) == 2:
            return T("dict", "", [sub(args[0]), sub(args[1])])
        if origin is collections.defaultdict and len(args) == 2:
            return T("ddict", "", [sub(args[0]), sub(args[1])])
        if origin is tuple:
            if args == ((),):
                return T("tuple", "", [])
            if len(args) == 2 and args[1] is Ellipsis:
                return T("tuplevar", "", [sub(args[0])])
            return T("tuple", "", [sub(x) for x in args])
        if origin is type and len(args) == 1:
            return T("typeof", "", [sub(args[0])])
        if origin is collections.abc.Iterator and len(args) == 1:
            return T("iterator", "", [sub(args[0])])
        if origin is collections.abc.Iterable and len(args) == 1:
            return T("iterable", "", [sub(args[0])])
        if origin is collections.abc.Generator and len(args) == 3:
            return T("generator", "", [sub(x) for x in args])
        return T("other", "generic:" + repr(t))
    if isinstance(t, type):
        return T("cls", table.name(t))
    return T("other", "obj:" + type(t).__name__)


# --------------------------------------------------------------------------------------
# abstract -> real (used to replay TLC-chosen values/types into the implementation)
# --------------------------------------------------------------------------------------
_ATOM_SAMPLES = {"int": 1, "float": 1.5, "bool": True, "NoneType": None, "bytes": b"x"}


def _a_generator():
    yield 1


def real_value(v, table=TABLE, share=None):
    """A real Python value for the abstract value v.  With `share` (a dict) structurally equal containers become ONE
    object, however often and wherever they occur (aliasing inside a value and across values)."""
    if share is not None and v["k"] in ("list", "tuple", "set", "dict", "ddict"):
        key = canon(v)
        if key not in share:
            share[key] = _real_value(v, table, share)
        return share[key]
    return _real_value(v, table, share)


def _real_value(v, table, share):
    k = v["k"]
    if k == "cyc":      # a finite value that contains itself (not a tree: it has no other abstract form)
        if v["n"] == "list":
            x = [1]
            x.append(x)
            return x
        if v["n"] == "dict":
            x = {"a": 1}
            x["self"] = x
            return x
        if v["n"] == "list_in_tuple":
            x = []
            x.append((x, 1))
            return x
        raise ValueError("unknown self-containing value %r" % (v["n"],))
    if k == "str":
        return resolve_class(v["a"][0]["n"], table)(unarmour(v["n"])) if v["a"] else unarmour(v["n"])
    if k == "atom":
        if v["n"] in _ATOM_SAMPLES:
            return _ATOM_SAMPLES[v["n"]]
        return resolve_class(v["n"], table)()
    if k == "classobj":
        return resolve_class(v["n"], table)
    if k == "func":
        n = v["n"]
        if n == "builtin_function_or_method":
            return len
        if n == "method":
            from mtfx import shapes
            return shapes.HasMethod().method
        return lambda: None
    if k == "genobj":
        return _a_generator()
    if k == "list":
        return [real_value(e, table, share) for e in v["a"]]
    if k == "tuple":
        return tuple(real_value(e, table, share) for e in v["a"])
    if k == "set":
        return {real_value(e, table, share) for e in v["a"]}
    if k in ("dict", "ddict"):
        d = {} if k == "dict" else collections.defaultdict(int)
        for p in v["a"]:
            d[real_value(p["a"][0], table, share)] = real_value(p["a"][1], table, share)
        return d
    raise ValueError("cannot build value of kind %r" % (k,))


def resolve_class(name, table=TABLE):
    if name in table.cls:
        return table.cls[name]
    import builtins
    import importlib
    if "." not in name:
        c = getattr(builtins, name, None)
        if c is None and name == "NoneType":
            c = NoneType
        table.name(c)
        return c
    parts = name.split(".")
    for i in range(len(parts) - 1, 0, -1):
        try:
            obj = importlib.import_module(".".join(parts[:i]))
        except ImportError:
            continue
        for p in parts[i:]:
            obj = getattr(obj, p)
        table.name(obj)
        return obj
    raise LookupError(name)


def real_type(t, table=TABLE, make_td=None, reverse=False, reverse_keys=False):
    """Build a typing object from an abstract type. `make_td(req, opt)` builds anonymous
    TypedDicts (supplied by the caller so that this module stays independent of monkeytype).
    reverse=True builds the same type along another construction order (union members and
    TypedDict keys in the opposite order)."""
    k = t["k"]
    sub = lambda x: real_type(x, table, make_td, reverse, reverse_keys)  # noqa: E731
    if k == "any":
        return typing.Any
    if k == "cls":
        return resolve_class(t["n"], table)
    if k == "typeof":
        return typing.Type[sub(t["a"][0])]
    if k == "callable":
        return typing.Callable
    if k == "iterator":
        return typing.Iterator[sub(t["a"][0])]
    if k == "generator":
        return typing.Generator[sub(t["a"][0]), sub(t["a"][1]), sub(t["a"][2])]
    if k == "list":
        return typing.List[sub(t["a"][0])]
    if k == "set":
        return typing.Set[sub(t["a"][0])]
    if k == "dict":
        return typing.Dict[sub(t["a"][0]), sub(t["a"][1])]
    if k == "ddict":
        return typing.DefaultDict[sub(t["a"][0]), sub(t["a"][1])]
    if k == "tuple":
        return typing.Tuple[tuple(sub(x) for x in t["a"])] if t["a"] else typing.Tuple[()]
    if k == "tuplevar":
        return typing.Tuple[sub(t["a"][0]), ...]
    if k == "union":
        return typing.Union[tuple(sub(x) for x in sorted(t["u"], key=canon, reverse=reverse))]
    if k == "td":
        flds = sorted(t["u"], key=canon, reverse=reverse_keys)
        req = {unarmour(f["n"]): sub(f["a"][0]) for f in flds if f["k"] == "req"}
        opt = {unarmour(f["n"]): sub(f["a"][0]) for f in flds if f["k"] == "opt"}
        return make_td(req, opt)
    raise ValueError("cannot build type of kind %r" % (k,))


# --------------------------------------------------------------------------------------
# TLA+ rendering of terms and of the class table
# --------------------------------------------------------------------------------------
def tla_str(s):
    assert all(32 <= ord(ch) < 127 and ch not in '"\\' for ch in s), "non-ASCII/quote in %r" % (s,)
    return '"%s"' % s


def tla_term(t):
    return "[k |-> %s, n |-> %s, a |-> <<%s>>, u |-> {%s}]" % (
        tla_str(t["k"]), tla_str(t["n"]),
        ", ".join(tla_term(x) for x in t["a"]),
        ", ".join(tla_term(x) for x in t["u"]),
    )


def tla_class_table(table=TABLE, names=None, which="mro"):
    """TLA+ text of the function  class name -> sequence of MRO names (or direct base names)."""
    names = sorted(table.mro) if names is None else sorted(names)
    if which == "modqn":
        return " @@\n    ".join("%s :> %s" % (tla_str(n), tla_str(table.modqn[n])) for n in names)
    src = table.mro if which == "mro" else table.bases
    items = ["%s :> <<%s>>" % (tla_str(n), ", ".join(tla_str(b) for b in src[n])) for n in names]
    return " @@\n    ".join(items)


def ensure_fixture_path():
    import os
    p = os.path.join(os.path.dirname(os.path.dirname(os.path.abspath(__file__))), "fixtures")
    if p not in sys.path:
        sys.path.insert(0, p)
    return p
