"""C15 / C16: generated source modules x real traces -> real stub -> real apply_stub_using_libcst (and the
`apply` CLI), applied twice; the projection (ast) extracts import items, per-position annotation texts,
erasure equality, importability and behaviour; TLC validates against MTApplyTrace."""
import ast
import concurrent.futures
import copy
import difflib
import importlib
import io
import itertools
import json
import os
import random
import sys
import types

from . import absmodel, core, tlc

FEATURES = ["docstring", "future_import", "comments", "decorators", "nested_defs", "partial_annotations", "typing_import",
            "import_module_runtime", "import_alias", "import_in_function", "existing_tc_block", "star_import", "import_dotted",
            "class_level_code", "module_level_code", "respelled_annotations", "wordy_annotations", "relative_import",
            "tc_import_in_try", "tc_import_in_function", "reexport_alias_import", "posonly_then_kwonly_params", "fallback_import_in_try", "latin1_source",
            "fully_annotated_f2", "late_import_at_bottom", "exotic_separators",
            "from_import_sibling_name"]


def gen_source(feat):
    """Source text of a module with the chosen features on a 3-function skeleton (+ a class)."""
    f = set(feat)
    L = []
    if "latin1_source" in f:      # PEP 263: the file is NOT UTF-8 (written as latin-1 by the harness) and says so
        L.append("# -*- coding: latin-1 -*-")
    if "docstring" in f:
        L.append('"""Module docstring."""')
    if "future_import" in f:
        L.append("from __future__ import division")
    if "comments" in f:
        L.append("# a leading comment")
    L.append("import functools")
    if "wordy_annotations" in f:
        L.append("import typing")
    if "typing_import" in f:
        L.append("from typing import List, Optional")
    if "import_module_runtime" in f:
        L.append("import zshapes")
    if "from_import_sibling_name" in f:      # another name of the module the stub will import from, used at run time: libcst
        L.append("from zshapes import area")   # merges the stub's names INTO this statement
    if "import_alias" in f:
        L.append("from zshapes import Circle as C")
    if "relative_import" in f:
        L.append("from .zshapes import Circle")     # the package's own zshapes module, used at run time
    elif "reexport_alias_import" in f:
        L.append("from zshapes import Circle as Circle")     # the re-export idiom; the name is used at run time
    elif "fallback_import_in_try" in f:                      # one name, two candidate sources: the first one wins here
        L += ["try:", "    from zshapes import Circle", "except ImportError:", "    from zshapes_compat import Circle"]
    if "star_import" in f:
        L.append("from zsh.deep import *")
    if "import_dotted" in f:
        L.append("import zsh.deep")
    if "existing_tc_block" in f:
        L += ["from typing import TYPE_CHECKING", "if TYPE_CHECKING:", "    from zshapes import area"]
    if "tc_import_in_try" in f:      # the compatibility idiom: TYPE_CHECKING bound inside a compound statement
        L += ["try:", "    from typing import TYPE_CHECKING", "except ImportError:", "    TYPE_CHECKING = False"]
    L.append("")
    if "module_level_code" in f:
        L += ["COUNTER = [0]", ""]
    if "latin1_source" in f:
        L += ["LABEL = 'caf\xe9 \xfcber'", ""]
    if "exotic_separators" in f:
        # characters that str.splitlines() treats as line ends and the Python tokenizer does not: inside string literals (single-
        # and triple-quoted) and in a comment; the text of the program, they must come through `apply` untouched
        L += ["SEPS = 'a\x0cb\x1cc\x1dd\x1ee\x85f\u2028g\u2029h'  # form\x0bfeed", 'DOC = """x\x0c', 'y\u2028z"""', ""]
        if "latin1_source" in f:       # (a latin-1 file cannot hold U+2028 / U+2029)
            L[-4:] = [x.replace("\u2028", "").replace("\u2029", "") for x in L[-4:]]
    if "decorators" in f:
        L += ["def deco(fn):", "    @functools.wraps(fn)", "    def w(*a, **k):", "        return fn(*a, **k)", "    return w", ""]
    if "comments" in f:
        L.append("# comment before f1")
    if "decorators" in f:
        L.append("@deco")
    L += ["def f1(a, b=None):", "    x = a  # trailing comment" if "comments" in f else "    x = a"]
    if "import_in_function" in f:
        L.append("    from zshapes import Square")
    if "import_module_runtime" in f:
        L.append("    y = zshapes.area(x)")
    if "from_import_sibling_name" in f:
        L.append("    y2 = area(x)")
    if "import_alias" in f:
        L.append("    z = C()")
    if "relative_import" in f or "reexport_alias_import" in f or "fallback_import_in_try" in f:
        L.append("    zz = Circle()")
    if "nested_defs" in f:
        L += ["    def inner(q):", "        return q", "    x = inner(x)"]
    L += ["    return x", ""]
    if "partial_annotations" in f and "wordy_annotations" in f:
        L += ["def f2(x: 'typing.Union[int, int, int, int, int, int]', y, z: 'typing.Optional[typing.Optional[str]]' = 's') -> "
              "'typing.Union[int, int, int, int, int, int, int, int]':", "    return x", ""]
    elif "partial_annotations" in f and "respelled_annotations" in f:
        L += ["def f2(x: 'int', y, z: int = None) -> \"int\":", "    return x", ""]
    elif "fully_annotated_f2" in f:      # nothing left to annotate in f2 (a stub for it may still bring imports)
        L += ["def f2(x: int, y: 'object', z: str = 's') -> int:", "    return x", ""]
    elif "partial_annotations" in f:
        L += ["def f2(x: int, y, z: str = 's') -> int:", "    return x", ""]
    else:
        L += ["def f2(x, y, z='s'):", "    return x", ""]
    L += ["class K:"]
    if "class_level_code" in f:
        L += ["    attr = 3", "    names = [n for n in ('a', 'b')]"]
    L += ["    def m(self, p, q=None):", "        return p", "", "    @staticmethod", "    def s(v):", "        return v", ""]
    L += ["def f3(d, /, *, lo=None, hi=0):" if "posonly_then_kwonly_params" in f else "def f3(d):"] + (["    from typing import TYPE_CHECKING"] if "tc_import_in_function" in f else []) + ["    return d", ""]
    if "module_level_code" in f:
        L += ["COUNTER[0] = f2(1, 2)", ""]
    if "late_import_at_bottom" in f:     # the idiom for breaking an import cycle: the import is the LAST statement of the module
        L += ["from zshapes import Circle  # noqa: E402", ""]
    return "\n".join(L) + "\n"


# ------------------------------------------------------------------------------ projection (ast)
def import_items(tree, runtime_names=None):
    items = []

    def visit(body, block):
        for node in body:
            if isinstance(node, ast.Import):
                for a in node.names:
                    items.append({"kind": "import", "module": a.name, "name": "", "alias": a.asname or "", "block": block,
                                  "bound": a.asname or a.name.split(".")[0]})
            elif isinstance(node, ast.ImportFrom):
                for a in node.names:
                    items.append({"kind": "from", "module": ("." * node.level) + (node.module or ""), "name": a.name,
                                  "alias": a.asname or "", "block": block, "bound": a.asname or a.name})
            elif isinstance(node, ast.If) and ast.unparse(node.test) in ("TYPE_CHECKING", "typing.TYPE_CHECKING"):
                visit(node.body, "tc")
                visit(node.orelse, block)
            elif isinstance(node, (ast.FunctionDef, ast.AsyncFunctionDef)):
                visit(node.body, "func")
            elif isinstance(node, ast.ClassDef):
                visit(node.body, block if block != "top" else "top")
            else:      # try / if / with / for / while at module level: bound at run time like a plain import, but not the
                # leading import block ("nested")
                sub = "nested" if block == "top" else block
                for attr in ("body", "orelse", "finalbody"):
                    if isinstance(getattr(node, attr, None), list):
                        visit(getattr(node, attr), sub)
                for h in getattr(node, "handlers", []) or []:
                    visit(h.body, sub)
    visit(tree.body, "top")
    for it in items:
        it["runtime"] = bool(runtime_names is not None and it["bound"] in runtime_names)
    for it in items:     # a name that is ALSO bound by a module-level import outside TYPE_CHECKING is served by that one at run time
        if it["block"] == "tc" and any(o is not it and o["block"] in ("top", "nested") and o["bound"] == it["bound"] for o in items):
            it["runtime"] = False
    return items


class _StripAnn(ast.NodeTransformer):
    def visit_arg(self, node):
        node.annotation = None
        return node

    def _f(self, node):
        self.generic_visit(node)
        node.returns = None
        return node
    visit_FunctionDef = _f
    visit_AsyncFunctionDef = _f


def runtime_names(tree):
    """Names the module needs when it is imported / run, i.e. used outside annotations.  Variable annotations (the fields of
    generated TypedDict classes) are evaluated when the class body runs - unless the module starts with
    `from __future__ import annotations`, which turns them into strings."""
    t = _StripAnn().visit(copy.deepcopy(tree))
    lazy = any(isinstance(n, ast.ImportFrom) and n.module == "__future__" and any(a.name == "annotations" for a in n.names) for n in t.body)
    names = set()
    for node in ast.walk(t):
        if lazy and isinstance(node, ast.AnnAssign):
            node.annotation = ast.Constant(value=None)
    for node in ast.walk(t):
        if isinstance(node, ast.Name):
            names.add(node.id)
    return names


def erase(tree, new_keys, generated_classes, surplus=None):
    """The tree with parameter / return annotations, newly added imports, generated TypedDict classes and the
    TYPE_CHECKING scaffolding that only holds new imports erased."""
    t = _StripAnn().visit(copy.deepcopy(tree))
    surplus = dict(surplus or {})      # import items the result has MORE often than the source (an added duplicate): the
                                       # first occurrences are the added ones

    def is_new(k):
        if k in new_keys:
            return True
        if surplus.get(k, 0) > 0:
            surplus[k] -= 1
            return True
        return False

    def key(a, node, block):
        if isinstance(node, ast.Import):
            return ("import", a.name, "", a.asname or "", block)
        return ("from", ("." * node.level) + (node.module or ""), a.name, a.asname or "", block)

    def clean(body, block="top"):
        out = []
        for node in body:
            if isinstance(node, (ast.Import, ast.ImportFrom)):
                node.names = [a for a in node.names if not is_new(key(a, node, block))]
                if node.names:
                    out.append(node)
                continue
            if isinstance(node, ast.ClassDef) and node.name in generated_classes:
                continue
            if isinstance(node, ast.If) and ast.unparse(node.test) == "TYPE_CHECKING":
                node.body = clean(node.body, "tc")
                if not node.body and not node.orelse:
                    continue
                out.append(node)
                continue
            if isinstance(node, (ast.FunctionDef, ast.AsyncFunctionDef)):
                sub = "func"
            elif isinstance(node, ast.ClassDef):
                sub = block
            else:
                sub = "nested" if block == "top" else block
            for attr in ("body", "orelse", "finalbody"):
                if hasattr(node, attr) and isinstance(getattr(node, attr), list):
                    setattr(node, attr, clean(getattr(node, attr), sub) or ([ast.Pass()] if attr == "body" else []))
            for h in getattr(node, "handlers", []) or []:
                h.body = clean(h.body, sub) or [ast.Pass()]
            out.append(node)
        return out
    t.body = clean(t.body)
    return ast.dump(t, include_attributes=False)


def import_map(tree):
    """local name -> fully qualified dotted name, from every import statement of the file (any block).  Where one name is bound
    by several statements, the binding in force at module level after a successful import wins: handlers of a `try` lose to
    its body, statements nested in functions lose to module-level ones, and among equals the later statement wins."""
    found = []          # (priority, running number, local name, qualified name, star?)

    def visit(body, prio):
        for node in body:
            if isinstance(node, ast.Import):
                for a in node.names:
                    found.append((prio, len(found), a.asname or a.name.split(".")[0], a.name if a.asname else a.name.split(".")[0], False))
            elif isinstance(node, ast.ImportFrom) and node.module and not node.level:
                for a in node.names:
                    if a.name != "*":
                        found.append((prio, len(found), a.asname or a.name, node.module + "." + a.name, False))
                    else:                       # a star import provides every public name of the module
                        try:
                            mod = importlib.import_module(node.module)
                            for n in getattr(mod, "__all__", [x for x in vars(mod) if not x.startswith("_")]):
                                found.append((prio, len(found), n, node.module + "." + n, True))
                        except Exception:
                            pass
            elif isinstance(node, (ast.FunctionDef, ast.AsyncFunctionDef)):
                visit(node.body, 0)
            else:
                for attr in ("body", "orelse", "finalbody"):
                    if isinstance(getattr(node, attr, None), list):
                        visit(getattr(node, attr), prio)
                for h in getattr(node, "handlers", []) or []:
                    visit(h.body, min(prio, 1))
    visit(tree.body, 2)
    m = {}
    for prio, _, name, qual, star in sorted(found, key=lambda x: (not x[4], x[0], x[1])):     # stars first: explicit names override them
        m[name] = qual
    return m


def qualify(text, imap):
    """The annotation with every (dotted) name replaced by what it denotes through the file's imports, so that
    `Deep` next to `from zsh.deep import Deep` and `zsh.deep.Deep` next to `import zsh.deep` compare equal."""
    if not text or text == "<missing>":
        return text
    try:
        tree = ast.parse(text, mode="eval")
    except SyntaxError:
        return text

    class Q(ast.NodeTransformer):
        def visit_Attribute(self, node):
            parts, cur = [], node
            while isinstance(cur, ast.Attribute):
                parts.append(cur.attr)
                cur = cur.value
            if isinstance(cur, ast.Name):
                base = imap.get(cur.id, cur.id)
                return ast.Name(id=".".join([base] + parts[::-1]), ctx=ast.Load())
            return self.generic_visit(node)

        def visit_Name(self, node):
            return ast.Name(id=imap.get(node.id, node.id), ctx=ast.Load())

        def visit_Constant(self, node):
            if isinstance(node.value, str):     # forward reference
                try:
                    return ast.Name(id=qualify(node.value, imap), ctx=ast.Load())
                except Exception:
                    return node
            return node
    return ast.unparse(Q().visit(tree))


def positions(src_tree, stub_tree, res_tree):
    maps = [import_map(src_tree), import_map(stub_tree), import_map(res_tree)]

    def collect(tree):
        out = {}

        def walk(body, path):
            for node in body:
                if isinstance(node, (ast.FunctionDef, ast.AsyncFunctionDef)):
                    f = ".".join(path + [node.name])
                    a = node.args
                    for arg in a.posonlyargs + a.args + a.kwonlyargs + ([a.vararg] if a.vararg else []) + ([a.kwarg] if a.kwarg else []):
                        out[(f, arg.arg)] = "" if arg.annotation is None else ast.unparse(arg.annotation)
                    out[(f, "return")] = "" if node.returns is None else ast.unparse(node.returns)
                elif isinstance(node, ast.ClassDef):
                    walk(node.body, path + [node.name])
        walk(tree.body, [])
        return out
    s, st, r = collect(src_tree), collect(stub_tree), collect(res_tree)
    out = []
    for k in sorted(set(s) | set(r)):
        # the source's own names keep their meaning in the result (its imports are still there: ExistingUnmoved)
        out.append({"f": k[0], "pos": k[1], "src": qualify(s.get(k, ""), maps[0]), "stub": qualify(st.get(k, ""), maps[1]),
                    "res": qualify(r.get(k, "<missing>"), maps[2]), "src_raw": s.get(k, ""), "res_raw": r.get(k, "<missing>")})
    return out


WORKLOAD = '''
def __workload__():
    out = []
    for call in (lambda: f1(1), lambda: f1("s", None), lambda: f2(1, 2), lambda: K().m(3), lambda: K.s([1]), lambda: f3({"a": 1})):
        try:
            out.append(repr(call()))
        except Exception as e:
            out.append("EXC:" + type(e).__name__)
    return out
'''


def behaviour(text, name, package=None):
    """Execute the module text in a fresh namespace and run the fixed workload."""
    mod = types.ModuleType(name)
    mod.__dict__["__name__"] = name
    if package:
        mod.__dict__["__package__"] = package
    try:
        exec(compile(text + WORKLOAD, "<%s>" % name, "exec"), mod.__dict__)
    except Exception as e:
        return False, ["IMPORT:" + type(e).__name__ + ":" + str(e)[:60]]
    return True, mod.__dict__["__workload__"]()


# ------------------------------------------------------------------------------ one case, real code
_W = {}


def _setup():
    if _W:
        return _W
    core.use_repo()
    absmodel.ensure_fixture_path()
    d = tlc.scratch_dir("mtverif_apply_")
    sys.path.insert(0, d)
    _W.update(dir=d, n=0)
    return _W


def run_case(case):
    """case = {tid, features, traced:[names], types: name -> which arg types, overwrite, confine, k, via_cli}"""
    w = _setup()
    from monkeytype.cli import HandlerError, apply_stub_using_libcst
    from monkeytype.stubs import ExistingAnnotationStrategy, build_module_stubs_from_traces
    from monkeytype.tracing import CallTrace
    from monkeytype.typing import get_type
    import zshapes
    w["n"] += 1
    name = "mta_%d_%d" % (os.getpid(), w["n"])
    src = gen_source(case["features"])
    package = None
    if "relative_import" in case["features"]:      # the module lives in a package that has its own `zshapes` module
        package = "pk" + name
        os.makedirs(os.path.join(w["dir"], package))
        open(os.path.join(w["dir"], package, "__init__.py"), "w").close()
        with open(os.path.join(w["dir"], package, "zshapes.py"), "w") as fh:
            fh.write("class Circle:\n    local = True\n\n\nclass Square:\n    local = True\n")
        path = os.path.join(w["dir"], package, "core.py")
        name = package + ".core"
    else:
        path = os.path.join(w["dir"], name + ".py")
    latin1 = "latin1_source" in case["features"]
    if latin1 or "exotic_separators" in case["features"]:
        case = dict(case, via_cli=True)           # the file's encoding / raw characters only matter to the command that reads and writes the file
    with open(path, "w", encoding="latin-1" if latin1 else None) as fh:
        fh.write(src)
    importlib.invalidate_caches()
    with open(path, "rb") as fh:
        try:
            fh.read().decode("utf-8")
            not_utf8 = False
        except UnicodeDecodeError:
            not_utf8 = True
    rec = {"tid": case["tid"], "source_not_utf8": not_utf8, "overwrite": case["overwrite"], "confine": case["confine"], "failed": False, "parses": True,
           "erasure": True, "idempotent": True, "importable": True, "behaviour": True, "future_first": True,
           "src_imports": [], "res_imports": [], "stub_imports": [], "positions": [], "err": "", "stub": "", "res": "", "idem_delta": ""}
    try:
        mod = importlib.import_module(name)
        k = case["k"]
        vals = {"circle": zshapes.Circle(), "square": zshapes.Square(), "int": 1, "str": "s", "none": None,
                "list": [zshapes.Circle()], "dict": {"a": 1, "b": "x"}, "dictcls": {"n": 1, "shape": zshapes.Circle()},
                "dictdeep": {"d": __import__("zsh.deep").deep.Deep(), "items": [zshapes.Square()]}, "deep": __import__("zsh.deep").deep.Deep(), "tm": __import__("typing_zm").TM(),
                "layer": zshapes.Canvas.Layer()}
        T = lambda v: get_type(vals[v], k)  # noqa: E731
        traces = []
        funcs = {"f1": (getattr(mod.f1, "__wrapped__", mod.f1), ["a", "b"]), "f2": (mod.f2, ["x", "y", "z"]),
                 "K.m": (mod.K.__dict__["m"], ["p", "q"]), "K.s": (mod.K.__dict__["s"].__func__, ["v"]),
                 "f3": (mod.f3, ["d", "lo", "hi"] if "posonly_then_kwonly_params" in case["features"] else ["d"])}
        vals.update(dictopt_a={"a": 1}, dictopt_b={"c": "x"})
        for fname in case["traced"]:
            fn, params = funcs[fname]
            sel = case["types"][fname]
            if sel == ["dictopt"]:
                # two calls with records that share no key: the generated TypedDict (k > 0) has OPTIONAL keys only -
                # one `class X(TypedDict, total=False)` and no required-keys class above it
                for v in ("dictopt_a", "dictopt_b"):
                    traces.append(CallTrace(fn, {p: T(v) for p in params}, T("int"), None))
                continue
            traces.append(CallTrace(fn, {p: T(sel[i % len(sel)]) for i, p in enumerate(params)}, T(sel[-1]), None))
        strategy = ExistingAnnotationStrategy.IGNORE if case["overwrite"] else ExistingAnnotationStrategy.REPLICATE
        stubs = build_module_stubs_from_traces(traces, k, strategy, None)
        stub = stubs[name].render() if name in stubs else ""
        rec["stub"] = stub[:1500]
        try:
            if case.get("via_cli"):
                res, res2 = apply_via_cli(w, name, path, traces, case)
            else:
                res = apply_stub_using_libcst(stub, src, case["overwrite"], case["confine"])
                res2 = apply_stub_using_libcst(stub, res, case["overwrite"], case["confine"])
        except HandlerError as e:
            rec["failed"], rec["err"] = True, str(e)[:300].replace(" [[module file changed]]", "")
            rec["file_changed_by_failed_apply"] = "[[module file changed]]" in str(e)
            return rec
        rec["res"] = res[:2500]
        rec["res_full"] = res
        rec["idempotent"] = res2 == res
        if res2 != res:      # what the second application changed (narrows the recorded finding)
            a, b = res.splitlines(), res2.splitlines()
            delta = list(difflib.ndiff(a, b))
            changed = [ln[2:].strip() for ln in delta if ln[:2] in ("+ ", "- ")]
            if res2.startswith("<second apply raised NameError: name 'TypedDict' is not defined"):
                rec["idem_delta"] = "second_application_raised_NameError_TypedDict"
            elif all(ln in ("", "pass", "if TYPE_CHECKING:") or ln.split(" ")[0] in ("from", "import") for ln in changed):
                rec["idem_delta"] = "import_block_lines_only"
            else:
                rec["idem_delta"] = "other"
        try:
            rt = ast.parse(res)
        except SyntaxError as e:
            rec["parses"], rec["err"] = False, str(e)
            return rec
        st, stt = ast.parse(src), ast.parse(stub)
        rn = runtime_names(rt)
        src_items, res_items = import_items(st, None), import_items(rt, rn)
        rec["src_imports"] = src_items
        rec["res_imports"] = res_items
        rec["stub_imports"] = [{"module": i["module"], "name": i["name"]} for i in import_items(stt) if i["kind"] == "from"]
        skey = {(i["kind"], i["module"], i["name"], i["alias"], i["block"]) for i in src_items}
        new_keys = {(i["kind"], i["module"], i["name"], i["alias"], i["block"]) for i in res_items} - skey
        generated = {n.name for n in stt.body if isinstance(n, ast.ClassDef) and any(ast.unparse(b).startswith("TypedDict") or "TypedDict" in ast.unparse(b) for b in n.bases)}
        generated |= {n.name for n in stt.body if isinstance(n, ast.ClassDef) and n.name.endswith("NonTotal")}
        import collections as _c
        k5 = lambda i: (i["kind"], i["module"], i["name"], i["alias"], i["block"])  # noqa: E731
        extra = _c.Counter(k5(i) for i in res_items) - _c.Counter(k5(i) for i in src_items)
        surplus = {k: n for k, n in extra.items() if k in skey}
        rec["erasure"] = erase(st, set(), set()) == erase(rt, new_keys, generated, surplus)
        rec["positions"] = positions(st, stt, rt)
        body = [n for n in rt.body if not (isinstance(n, ast.Expr) and isinstance(getattr(n, "value", None), ast.Constant)
                                          and isinstance(n.value.value, str))]
        first = body[0] if body else None
        rec["future_first"] = (isinstance(first, ast.ImportFrom) and first.module == "__future__"
                               and any(a.name == "annotations" for n in body if isinstance(n, ast.ImportFrom) and n.module == "__future__" for a in n.names)
                               and all(not (isinstance(n, ast.ImportFrom) and n.module == "__future__") or idx < 3 for idx, n in enumerate(body)))
        ok0, b0 = behaviour(src, name + "_a", package)
        ok1, b1 = behaviour(res, name + "_b", package)
        rec["importable"] = ok1 or not ok0
        rec["behaviour"] = (b0 == b1) if ok1 else True
        if not ok1:
            rec["err"] = b1[0]
        return rec
    finally:
        sys.modules.pop(name, None)
        try:
            os.unlink(path)
        except OSError:
            pass


CFG_SRC = '''import os
from monkeytype.config import DefaultConfig


class C(DefaultConfig):
    def max_typed_dict_size(self):
        return int(os.environ.get("MTA_K", "0"))

    def type_rewriter(self):
        from monkeytype.typing import NoOpRewriter
        return NoOpRewriter()


CONFIG = C()
'''


def apply_via_cli(w, name, path, traces, case):
    """The `apply` command itself: traces in a real store, the module file rewritten in place (twice)."""
    from monkeytype import cli
    from monkeytype.cli import HandlerError
    from monkeytype.db.sqlite import SQLiteStore
    cfgp = os.path.join(w["dir"], "mta_config.py")
    if not os.path.exists(cfgp):
        with open(cfgp, "w") as fh:
            fh.write(CFG_SRC)
        importlib.invalidate_caches()
    db = os.path.join(w["dir"], name + ".db")
    os.environ.update(MT_DB_PATH=db, MTA_K=str(case["k"]))
    st = SQLiteStore.make_store(db)
    st.add(traces)
    st.conn.close()
    argv = ["-c", "mta_config:CONFIG", "apply"] + (["--ignore-existing-annotations"] if case["overwrite"] else []) + \
           (["--pep_563"] if case["confine"] else []) + [name]
    outs = []
    try:
        for attempt in range(2):
            out, err = io.StringIO(), io.StringIO()
            with open(path, "rb") as fh:
                before = fh.read()

            def touched():      # a command that gives up must leave the module file as it found it
                try:
                    with open(path, "rb") as fh2:
                        return " [[module file changed]]" if fh2.read() != before else ""
                except OSError:
                    return " [[module file changed]]"
            try:
                rc = cli.main(argv, out, err)
            except Exception as e:           # the command itself died
                if attempt == 0:
                    raise HandlerError("apply raised %s: %s%s" % (type(e).__name__, str(e)[:150], touched()))
                outs.append("<second apply raised %s: %s>" % (type(e).__name__, e))   # "a second time changes nothing" is false
                break
            if rc != 0:
                raise HandlerError("apply exited %s: %s%s" % (rc, err.getvalue()[-150:], touched()))
            import tokenize
            with tokenize.open(path) as fh:           # as Python itself reads the file (coding cookie / BOM)
                outs.append(fh.read())
            sys.modules.pop(name, None)
    finally:
        try:
            os.unlink(db)
        except OSError:
            pass
    return outs[0], outs[1]


def _run_chunk(chunk):
    _setup()
    import logging
    logging.disable(logging.CRITICAL)
    return [run_case(c) for c in chunk]


def run_cases(cases, procs=16):
    chunks = [cases[i::procs] for i in range(procs)]
    out = []
    with concurrent.futures.ProcessPoolExecutor(max_workers=procs) as ex:
        for recs in ex.map(_run_chunk, [c for c in chunks if c]):
            out.extend(recs)
    return out


TYPE_SELS = [["int"], ["circle", "int"], ["circle", "square"], ["list", "none"], ["dict"], ["str", "circle", "none"], ["deep"],
             ["tm", "int"],
             # records whose values are instances of classes of other modules (with k > 0: fields of generated TypedDict classes)
             ["dictcls"], ["dictcls", "int"], ["dictdeep", "dict"]]


# a class nested in a class of another module: libcst imports the outer CLASS as if it were a module (recorded finding) and the
# result cannot be imported - which would mask everything else in the case, so these selections are drawn rarely
RARE_TYPE_SELS = [["layer"], ["layer", "circle"]]
OPTIONAL_ONLY = ["dictopt"]


def pick_types(rng):
    return rng.choice(RARE_TYPE_SELS) if rng.random() < 0.04 else rng.choice(TYPE_SELS)


def gen_cases(pid, tier, seed):
    rng = random.Random(seed)
    cases, plan = [], []
    q = tier == "quick"
    fnames = ["f1", "f2", "K.m", "K.s", "f3"]

    def add(label, featsets, confines, n_each):
        n0 = len(cases)
        for fs in featsets:
            for confine in confines:
                for _ in range(n_each):
                    traced = rng.sample(fnames, rng.randint(1, len(fnames)))
                    cases.append({"features": sorted(fs), "traced": traced, "types": {f: pick_types(rng) for f in traced},
                                  "overwrite": rng.random() < 0.4, "confine": confine, "k": rng.choice([0, 3]),
                                  "via_cli": rng.random() < 0.5})
        plan.append({"family": label, "cases": len(cases) - n0})
    confs = (False, True) if pid == "C15" else (True,)
    add("every single feature", [[f] for f in FEATURES] + [[]], confs, 3 if q else 12)
    add("every pair of features", [list(p) for p in itertools.combinations(FEATURES, 2)], confs, 1 if q else 4)
    subsets = [[f for f in FEATURES if rng.random() < 0.5] for _ in range(150 if q else 4000)]
    add("random feature subsets", subsets, confs, 1)
    add("all features", [FEATURES], confs, 6 if q else 40)
    # wordy existing annotations overwritten by shorter traced ones, through the CLI (the file gets SHORTER)
    n0 = len(cases)
    for conf in confs:
        for _ in range(4 if q else 30):
            cases.append({"features": ["import_module_runtime", "partial_annotations", "typing_import", "wordy_annotations"], "traced": ["f2"],
                          "types": {"f2": ["int"]}, "overwrite": True, "confine": conf, "k": 0, "via_cli": True})
    plan.append({"family": "wordy annotations overwritten through the `apply` command (result shorter than the file)", "cases": len(cases) - n0})
    # applications that libcst gives up on (recorded findings), through the command itself: a command that fails leaves the
    # module file as it found it
    n0 = len(cases)
    for conf in confs:
        for extra in (["fallback_import_in_try"], ["relative_import"], ["reexport_alias_import", "comments"]):
            for k in (0, 3):
                cases.append({"features": sorted(["posonly_then_kwonly_params"] + extra), "traced": ["f3", "f1"],
                              "types": {"f3": ["circle", "square"], "f1": ["int"]}, "overwrite": False, "confine": conf, "k": k, "via_cli": True})
    # (found by the seed sweep: here the SECOND application fails - the failing command has read the file and must not have touched it)
    for conf in confs:
        for k in (0, 3):
            cases.append({"features": ["comments", "existing_tc_block", "exotic_separators", "fallback_import_in_try", "from_import_sibling_name",
                                       "future_import", "import_in_function", "partial_annotations", "posonly_then_kwonly_params",
                                       "reexport_alias_import", "relative_import", "star_import", "tc_import_in_try", "typing_import"],
                          "traced": ["f1", "K.s", "f3", "f2", "K.m"], "overwrite": False, "confine": conf, "k": k, "via_cli": True,
                          "types": {"K.m": ["list", "none"], "K.s": ["circle", "int"], "f1": ["dictcls"], "f2": ["tm", "int"], "f3": ["str", "circle", "none"]}})
    plan.append({"family": "applications libcst gives up on, through the `apply` command (the file must be left alone)", "cases": len(cases) - n0})
    # the ONLY generated class is a TypedDict whose keys are all optional (its base class is needed when the module is imported)
    n0 = len(cases)
    for conf in confs:
        for extra in [[]] + [[f] for f in ("typing_import", "existing_tc_block", "docstring", "future_import", "import_module_runtime")]:
            for traced in (["f3"], ["f3", "K.s"], ["f1"]):
                cases.append({"features": sorted(extra), "traced": traced, "types": {f: ["dictopt"] for f in traced},
                              "overwrite": False, "confine": conf, "k": 3, "via_cli": len(extra) % 2 == 1})
    plan.append({"family": "the only generated class is a TypedDict with optional keys only", "cases": len(cases) - n0})
    # EVERY import the stub brings is a name of a module the source already imports another name from (libcst merges them
    # into the existing statement; no whole statement is new): alone and next to each other source feature
    n0 = len(cases)
    for conf in confs:
        for extra in [[]] + [[f] for f in FEATURES if f not in ("from_import_sibling_name", "latin1_source", "relative_import")]:
            for sel in (["circle"], ["circle", "square"]):
                traced = ["f1", "f3"] if len(sel) == 1 else ["f3", "K.s"]
                cases.append({"features": sorted(["from_import_sibling_name"] + extra), "traced": traced, "types": {f: sel for f in traced},
                              "overwrite": False, "confine": conf, "k": 0, "via_cli": len(extra) % 2 == 0})
    plan.append({"family": "every new import merges into an import statement the source already has", "cases": len(cases) - n0})
    for i, c in enumerate(cases):
        c["tid"] = i + 1
    return cases, plan


MINE = {"C15": {"ApplyFails", "Parses", "ErasureEqual", "Idempotent", "ExistingKept", "AnnotationsPresent", "Overwritten",
                "NothingInvented", "ConfinedWithoutRequest", "Importable", "SameBehaviour"},
        "C16": {"FutureFirst", "ConfinedOnlyNewAnnotationOnly", "ConfinedAllNew", "ExistingUnmoved", "RuntimeNeedsAtRuntime",
                "Importable", "SameBehaviour"}}


def only_special_params_mismatch(rec):
    """The recorded libcst finding's footprint: the positions whose applied annotation does not denote the stub's are all
    positional-only / keyword-only parameters (libcst's ApplyTypeAnnotationsVisitor neither imports nor re-qualifies the
    names used in their annotations), and there is at least one."""
    try:
        tree = ast.parse(rec.get("res_full") or rec.get("res", ""))
    except SyntaxError:
        return False
    special = set()

    def walk(body, path):
        for n in body:
            if isinstance(n, (ast.FunctionDef, ast.AsyncFunctionDef)):
                q = ".".join(path + [n.name])
                special.update((q, a.arg) for a in n.args.posonlyargs + n.args.kwonlyargs)
                walk(n.body, path + [n.name])
            elif isinstance(n, ast.ClassDef):
                walk(n.body, path + [n.name])
    walk(tree.body, [])
    mism = [p for p in rec["positions"] if p["stub"] and p["res"] != p["stub"] and (not p["src"] or rec["overwrite"])]
    return bool(mism) and all((p["f"], p["pos"]) in special for p in mism)


def unbound_special_param_names(rec, fields=False):
    """Names used in annotations of positional-only / keyword-only parameters of the result that nothing binds at MODULE
    level (an import inside a function body does not count) - the other footprint of the recorded libcst finding."""
    import builtins
    try:
        tree = ast.parse(rec.get("res_full") or rec.get("res", ""))
    except SyntaxError:
        return []
    bound = set(dir(builtins))

    def top(body):
        for n in body:
            if isinstance(n, (ast.Import, ast.ImportFrom)):
                for a in n.names:
                    if a.name == "*":
                        try:
                            m = importlib.import_module(n.module)
                            bound.update(x for x in vars(m) if not x.startswith("_"))
                        except Exception:
                            pass
                    else:
                        bound.add((a.asname or a.name).split(".")[0])
            elif isinstance(n, (ast.ClassDef, ast.FunctionDef, ast.AsyncFunctionDef)):
                bound.add(n.name)
            elif isinstance(n, ast.If):
                top(n.body), top(n.orelse)
            elif isinstance(n, ast.Try):
                top(n.body), top(n.orelse), top(n.finalbody)
                for h in n.handlers:
                    top(h.body)
            elif isinstance(n, ast.Assign):
                bound.update(t.id for t in n.targets if isinstance(t, ast.Name))
    if fields:      # names in the field annotations of module-level TypedDict classes: evaluated when the class body runs, so they
        # must be bound by a statement that comes BEFORE the class
        lazy = any(isinstance(n, ast.ImportFrom) and n.module == "__future__" and any(a.name == "annotations" for a in n.names) for n in tree.body)
        missing = set()
        if not lazy:
            for n in tree.body:
                if isinstance(n, ast.ClassDef) and any("TypedDict" in ast.unparse(b) for b in n.bases):
                    for st in n.body:
                        if isinstance(st, ast.AnnAssign):
                            missing |= {x.id for x in ast.walk(st.annotation) if isinstance(x, ast.Name)} - bound
                top([n])
        return sorted(missing)
    top(tree.body)
    special = set()
    for n in ast.walk(tree):
        if isinstance(n, (ast.FunctionDef, ast.AsyncFunctionDef)):
            for a in n.args.posonlyargs + n.args.kwonlyargs:
                if a.annotation is not None:
                    special |= {x.id for x in ast.walk(a.annotation) if isinstance(x, ast.Name)}
    return sorted(special - bound)


def signature(clause, rec, case):
    sig = {"clause": clause, "confine": case["confine"]}
    if clause in ("AnnotationsPresent", "Idempotent", "Importable", "SameBehaviour"):
        if only_special_params_mismatch(rec) or unbound_special_param_names(rec):
            sig["only_posonly_or_kwonly_annotations_not_imported_or_requalified"] = True
        elif unbound_special_param_names(rec, fields=True):
            # the generated TypedDict classes are copied into the module verbatim; a field type the module only knows under
            # another spelling (`import zshapes` -> `zshapes.Circle`) is written bare and nothing imports it
            sig["generated_typeddict_field_names_not_imported"] = True
    gone = [i for i in rec["src_imports"] if not any(
        (j["kind"], j["module"], j["name"], j["alias"], j["block"]) == (i["kind"], i["module"], i["name"], i["alias"], i["block"])
        for j in rec["res_imports"])]
    if clause in ("ExistingUnmoved", "Importable", "SameBehaviour", "ErasureEqual"):
        sig["source_imports_deleted"] = sorted({"import %s" % i["module"] if i["kind"] == "import" else
                                                "from %s import %s%s" % (i["module"], i["name"], " as " + i["alias"] if i["alias"] else "")
                                                for i in gone})
        stubm = {(s["module"], s["name"]) for s in rec["stub_imports"]}
        sig["deleted_resemble_stub_imports"] = bool(gone) and all(
            any(m == i["module"] and (i["kind"] == "import" or n == i["name"]) for m, n in stubm) for i in gone)
        sig.pop("source_imports_deleted")
    if clause in ("Importable", "SameBehaviour", "ApplyFails", "Idempotent", "AnnotationsPresent", "ConfinedAllNew"):
        # libcst turns the stub's `from zshapes import Canvas` + `Canvas.Layer` into `from zshapes.Canvas import Layer`: an import
        # whose "module" is a CLASS.  A fact about the result (ast), next to the input that provokes it.
        if any(j["kind"] == "from" and j["module"] == "zshapes.Canvas" for j in rec["res_imports"]) \
                and any("layer" in case["types"][f] for f in case["traced"]):
            sig = {"clause": clause, "confine": rec["confine"], "class_imported_as_if_it_were_a_module": True}
            return sig
    if clause in ("RuntimeNeedsAtRuntime", "Importable", "ConfinedOnlyNewAnnotationOnly", "SameBehaviour"):
        sig["typeddict_import_confined"] = any(j["block"] == "tc" and j["name"] == "TypedDict" and j["runtime"] for j in rec["res_imports"])
    if clause == "ConfinedAllNew":
        skey = {(i["kind"], i["module"], i["name"], i["alias"]) for i in rec["src_imports"]}
        off = [j for j in rec["res_imports"] if (j["kind"], j["module"], j["name"], j["alias"]) not in skey and j["block"] != "tc"
               and not j.get("runtime") and j["module"] not in ("typing", "__future__")]
        stubm = {s2["module"] for s2 in rec["stub_imports"]}
        if off and all(j["kind"] == "import" and j["module"] in stubm for j in off):
            # libcst could not use the stub's `from m import X` (X is bound differently, or twice, in the source): it added
            # `import m` and wrote `m.X`; MonkeyType only confines the imports the STUB lists, so this one stays at run time
            sig["module_import_added_by_libcst_for_a_clashing_name"] = True
    if clause == "Idempotent":
        sig["overwrite"] = case["overwrite"]
        sig["second_application_adds"] = rec.get("idem_delta", "")
    if clause == "ApplyFails" and rec.get("file_changed_by_failed_apply"):
        return {"clause": clause, "module_file_changed_although_apply_failed": True}
    if clause == "ApplyFails":
        sig["err"] = rec["err"][:80]
        if "latin1_source" in case["features"] and rec.get("source_not_utf8"):
            # (identified by the INPUT - the bytes of the source file are not UTF-8 - not by the wording of the failure)
            sig = {"clause": clause, "source_not_utf8": True}
        if ("Could not resolve a unique qualified name" in rec["err"] and "posonly_then_kwonly_params" in case["features"]
                and "f3" in case["traced"]):
            # the same libcst limitation (names in positional-only / keyword-only annotations are not re-qualified) when the
            # bare name is bound to another class in the source: libcst gives up on the whole module
            sig = {"clause": clause, "posonly_or_kwonly_annotation_name_clash": True}
        elif ("Could not resolve a unique qualified name" in rec["err"] and case["k"] > 0
              and any(x in ("dictcls", "dictdeep") for sel in case["types"].values() for x in sel)):
            # the same for the field types of generated TypedDict classes (copied verbatim, bare names) when the bare name is
            # bound to another class in the source
            sig = {"clause": clause, "generated_typeddict_field_name_clash": True}
    return sig


def main(pid, tier, seed, replay=None):
    core.use_repo()
    run = core.Run(pid, tier, seed)
    mc = None
    if replay:
        with open(replay) as fh:
            cases, plan = [dict(json.load(fh)["case"], tid=1)], [{"family": "replay", "cases": 1}]
    else:
        cases, plan = gen_cases(pid, tier, seed)
        if pid == "C16":
            mc = tlc.run_tlc("MTApplyMC", workers=8, timeout=600)
            tlc.check_ok(mc, "MTApplyMC")
            if mc.invariant_violated:
                raise tlc.TLCFailure("MTApplyMC design violated")
    records = run_cases(cases)
    by_tid = {r["tid"]: r for r in records}
    case_by = {c["tid"]: c for c in cases}
    slim = [{k: v for k, v in r.items() if k not in ("err", "stub", "res", "res_full", "source_not_utf8", "file_changed_by_failed_apply")} for r in records]
    for r in slim:
        for it in r["src_imports"] + r["res_imports"]:
            it.pop("bound", None)
    dev = core.model_deviations(["Dev_RemoveByModule"])["Dev_RemoveByModule"]
    cfg = "SPECIFICATION Spec\nCONSTANTS\n  Dev_RemoveByModule = %s\nCHECK_DEADLOCK FALSE\n" % ("TRUE" if dev else "FALSE")
    verdicts, states, trans, wall = tlc.validate_shards("MTApplyTrace", None, slim, min_per_shard=100,
                                                        extra_files={"MTApplyTrace.cfg": cfg})
    mine = MINE[pid]
    for v in verdicts:
        rec, case = by_tid[v["tid"]], case_by[v["tid"]]
        if v.get("drift"):
            run.drift += 1
        for clause in v.get("viol", []):
            if clause in mine:
                run.violation(signature(clause, rec, case), {k: case[k] for k in case if k != "tid"})
    ex = records[len(records) // 2]
    cov = {
        "states": (mc.distinct if mc else 0) + states, "transitions": (mc.generated if mc else 0) + trans,
        "traces_validated_against_impl": len(records), "evaluations": 2 * len(records),
        "distinct_nontrivial": len({json.dumps([c["features"], c["traced"], c["types"], c["overwrite"], c["confine"], c["k"]], sort_keys=True)
                                    for c in cases if c["features"]}),
        "rule": "one trace = one generated source module (feature subset on a 3-function + class skeleton), a stub generated by the "
                "real pipeline from real CallTraces of a random subset of its functions, the real apply_stub_using_libcst applied "
                "twice; the result is parsed, compared with the original after erasure, executed in a fresh namespace and a fixed "
                "workload re-run; non-trivial = at least one feature; distinct by (features, traced subset, types, overwrite, "
                "confinement, k)",
        "samples": [core.trim({"stub": ex["stub"], "res": ex["res"]}, 2500)], "plan": plan,
        "mc": None if mc is None else {"spec": "MTApplyMC, design: ExistingUnmoved, ConfinedOnly over all source/stub import sets",
                                       "distinct_states": mc.distinct, "states_generated": mc.generated},
        "trace_validation": {"spec": "MTApplyTrace", "tlc_states": states, "wall_s": round(wall, 1)},
        "exhaustive": False,
    }
    return run.finish(cov)
