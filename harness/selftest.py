"""Self-test of the binding (run by setup.sh and by `./check selftest`): hand-made traces, each one correct
except for ONE corrupted field or one dropped event, must be rejected by the trace specs with the expected
clause, and the uncorrupted ones must be accepted.  This guards against vacuous trace specs."""
import copy
import sys

from . import absmodel, envgen, tlc
from .absmodel import T

INT, STR, NONE = T("cls", "int"), T("cls", "str"), T("cls", "NoneType")
V1, VS, VN = T("atom", "int"), T("str", "a"), T("atom", "NoneType")
ABSENT = absmodel.ABSENT


def expect(name, spec, cfg, records, wanted, extra=None):
    """wanted: tid -> set of clauses that must be reported (empty set = must be accepted)."""
    verdicts, *_ = tlc.validate_shards(spec, cfg, records, shards=1, extra_files=extra)
    got = {v["tid"]: set(v.get("viol", [])) for v in verdicts}
    ok = True
    for tid, w in wanted.items():
        g = got.get(tid, set())
        if (w and not w <= g) or (not w and g):
            print("SELFTEST FAIL %s: trace %s expected %s got %s" % (name, tid, sorted(w), sorted(g)))
            ok = False
    print("selftest %-10s %s (%d traces)" % (name, "ok" if ok else "FAILED", len(records)))
    return ok


def infer_cases():
    good = {"tid": 1, "k": 2, "k1": 2, "vals": [V1, VS], "runs": [{"ty": T("union", "", [], [INT, STR]), "err": "NONE"}]}
    narrow = copy.deepcopy(good)
    narrow.update(tid=2)
    narrow["runs"][0]["ty"] = INT                                        # a value no longer fits
    wide = copy.deepcopy(good)
    wide.update(tid=3)
    wide["runs"][0]["ty"] = T("union", "", [], [INT, STR, NONE])          # an alternative nobody witnessed
    td = {"tid": 4, "k": 1, "k1": 1, "vals": [T("dict", "", [T("pair", "", [T("str", "a"), V1]), T("pair", "", [T("str", "b"), V1])])],
          "runs": [{"ty": T("td", "", [], [T("req", "a", [INT]), T("req", "b", [INT])]), "err": "NONE"}]}   # 2 keys, limit 1
    order = copy.deepcopy(good)
    order.update(tid=5)
    order["runs"].append({"ty": T("union", "", [], [INT, STR, T("cls", "bool")]), "err": "NONE"})
    return [good, narrow, wide, td, order], {1: set(), 2: {"Sound"}, 3: {"Tight"}, 4: {"TDBound"}, 5: {"OrderFree"}}


def tracer_cases():
    call = {"ev": "Call", "fid": 1, "f": "f", "kind": "plain", "wanted": True, "caller": 0, "catch": True, "drawn": False, "draw": 0,
            "args": [{"n": "a", "v": V1}]}
    ret = {"ev": "Return", "fid": 1, "how": "expr", "v": VS}
    log = {"ev": "Log", "fid": 0, "f": "f", "known": True, "model": "F", "args": [{"n": "a", "ty": INT}], "ret": STR, "ys": ABSENT}
    end = {"ev": "End", "fid": 0, "resid": 0, "flushes": 1, "err": "NONE"}

    def tr(tid, events, rate=0):
        return {"tid": tid, "rate": rate, "k": 0, "events": copy.deepcopy(events)}
    good = tr(1, [call, ret, log, end])
    dropped = tr(2, [call, ret, end])                                        # the Log event removed
    twice = tr(3, [call, ret, log, log, end])                                # logged twice
    wrongarg = tr(4, [call, ret, dict(log, args=[{"n": "a", "ty": STR}]), end])
    noret = tr(5, [call, ret, dict(log, ret=ABSENT), end])
    resid = tr(6, [call, ret, log, dict(end, resid=1)])
    sampled_skip = tr(7, [call, ret, end], rate=2)                           # allowed under sampling
    sampled_lost = tr(8, [dict(call, drawn=True, draw=0), ret, end], rate=2)  # the draw said "trace" but nothing was logged
    # a delegation chain: the generator g delegates to h (`yield from`); h yields a str, which g thereby yields too
    gcall = dict(call, fid=1, f="g", kind="gen")
    hcall = dict(call, fid=2, f="h", kind="gen")
    chain = [gcall, hcall, {"ev": "Resume", "fid": 1, "caller": 0, "catch": True, "drawn": False, "draw": 0},
             {"ev": "Delegate", "fid": 2, "caller": 1, "catch": True, "drawn": False, "draw": 0},
             {"ev": "Yield", "fid": 2, "v": VS}, {"ev": "Yield", "fid": 1, "v": VS},
             {"ev": "Resume", "fid": 1, "caller": 0, "catch": True, "drawn": False, "draw": 0},
             {"ev": "Return", "fid": 2, "how": "expr", "v": V1},
             dict(log, f="h", ret=INT, ys=STR),
             {"ev": "Return", "fid": 1, "how": "implicit", "v": VN},
             dict(log, f="g", ret=NONE, ys=STR), end]
    deleg_ok = tr(9, chain)
    deleg_bad = tr(10, chain[:10] + [dict(log, f="g", ret=NONE, ys=ABSENT), end])     # the delegating frame's yield is lost
    # an async generator: yields reported through the interpreter's wrapper carry their own clause names
    acall = dict(call, fid=1, f="ag", kind="agen")
    agen = tr(11, [acall, {"ev": "Resume", "fid": 1, "caller": 0, "catch": True, "drawn": False, "draw": 0}, {"ev": "Yield", "fid": 1, "v": V1},
                   {"ev": "Resume", "fid": 1, "caller": 0, "catch": True, "drawn": False, "draw": 0},
                   {"ev": "Return", "fid": 1, "how": "implicit", "v": VN},
                   dict(log, f="ag", ret=NONE, ys=T("cls", "async_generator_wrapped_value")), end])
    return [good, dropped, twice, wrongarg, noret, resid, sampled_skip, sampled_lost, deleg_ok, deleg_bad, agen], {
        1: set(), 2: {"MissingLog"}, 3: {"SpuriousLog"}, 4: {"ArgTypes"}, 5: {"ReturnPresent"}, 6: {"Residue"}, 7: set(),
        8: {"SampledCallNotLogged"}, 9: set(), 10: {"YieldsCovered"}, 11: {"AsyncGenYieldsCovered"}}


def store_cases():
    def row(q, key="k"):
        return {"mod": "m", "qn": [ord(c) for c in q], "key": key}
    r1, r2 = row("f"), row("g")
    start = {"ev": "AddStart", "c": "c1", "b": "b1", "rows": [r1, r2], "nbad": 0}
    okend = {"ev": "AddEnd", "c": "c1", "b": "b1", "ok": True, "err": ""}
    full = {"ev": "Check", "rows": [dict(r1, cnt=1), dict(r2, cnt=1)], "integrity": "ok"}
    half = {"ev": "Check", "rows": [dict(r1, cnt=1)], "integrity": "ok"}
    empty = {"ev": "Check", "rows": [], "integrity": "ok"}
    fl = {"ev": "Filter", "c": "c2", "m": "m", "p": [0], "n": 2000, "res": [r1, r2]}
    good = {"tid": 1, "events": [start, okend, full, fl]}
    torn = {"tid": 2, "events": [start, half]}                                # half a batch visible
    lost = {"tid": 3, "events": [start, okend, full, empty]}                   # a committed batch disappears
    extra = {"tid": 4, "events": [start, okend, dict(fl, p=[ord("f")])]}      # prefix f returns g as well
    inflight = {"tid": 5, "events": [start, empty, full, okend]}              # becoming visible while in flight is fine
    # free-running: an answer reflects some moment between its QueryStart and its arrival
    qs = {"ev": "QueryStart", "c": "c2"}
    none_seen = dict(fl, res=[])
    interval_ok = {"tid": 6, "events": [qs, start, okend, none_seen]}              # asked before the batch was committed
    stale = {"tid": 7, "events": [start, okend, qs, none_seen]}                    # asked after: the batch must be there
    return [good, torn, lost, extra, inflight, interval_ok, stale], {1: set(), 2: {"Atomic"}, 3: {"Atomic"}, 4: {"FilterExact"}, 5: set(),
                                                                    6: set(), 7: {"FilterExact"}}


def stub_cases():
    cell = {"pos": "a", "self": False, "defnone": False, "src": ABSENT, "traced": INT, "got": INT}
    f = {"key": "f", "count": 1, "placed": True, "decok": True, "asyncok": True, "live": [{"name": "a", "kind": "poskw", "default": False}],
         "stub": [{"name": "a", "kind": "poskw", "default": False}], "cells": [cell], "srcret": ABSENT, "tret": STR, "tyld": ABSENT, "gotret": STR}
    base = {"tid": 1, "strategy": "REPLICATE", "parses": True, "extra": [], "tdok": True, "funcs": [f]}

    def mut(tid, **kw):
        r = copy.deepcopy(base)
        r["tid"] = tid
        for k, v in kw.items():
            if k in r:
                r[k] = v
            elif k in r["funcs"][0]:
                r["funcs"][0][k] = v
            else:
                r["funcs"][0]["cells"][0][k] = v
        return r
    return [base, mut(2, got=STR), mut(3, got=T("unresolved", "pkg")), mut(4, parses=False), mut(5, extra=["g"]),
            mut(6, stub=[{"name": "a", "kind": "kwonly", "default": False}]), mut(7, gotret=T("iterator", "", [STR])),
            mut(8, src=STR, got=INT)], {
        1: set(), 2: {"DenotesSame"}, 3: {"SelfContained"}, 4: {"Parses"}, 5: {"ExactlyTraced"}, 6: {"MirrorsSignature"},
        7: {"DenotesSame"}, 8: {"AnnotationMatrix"}}


def pipeline_cases():
    D = lambda *pairs: T("dict", "", [T("pair", "", [T("str", k), v]) for k, v in pairs])  # noqa: E731
    pos = {"f": "f1", "pos": "x", "vals": [V1, VS], "ann": T("union", "", [], [INT, STR]), "defnone": False}
    base = {"tid": 1, "ev": "Sound", "k": 0, "tight": True, "positions": [pos], "tds": [], "stored": [], "obs": [], "tdobs": [], "ib_agrees": True}

    def mut(tid, **kw):
        r = copy.deepcopy(base)
        r["tid"] = tid
        for k2, v in kw.items():
            if k2 in r:
                r[k2] = v
            else:
                r["positions"][0][k2] = v
        return r
    same = {"tid": 7, "ev": "Same", "k": 0, "tight": False, "positions": [], "tds": [], "stored": [], "ib_agrees": True,
            "obs": [[{"f": "f1", "pos": "x", "ann": INT}], [{"f": "f1", "pos": "x", "ann": STR}]], "tdobs": [[], []]}
    same_ok = copy.deepcopy(same)
    same_ok.update(tid=8)
    same_ok["obs"][1][0]["ann"] = INT
    return [base, mut(2, ann=INT), mut(3, ann=T("union", "", [], [INT, STR, NONE])), mut(4, ann=T("unresolved", "pkg")),
            mut(5, ann=T("union", "", [], [INT, STR, NONE]), tight=False),          # not tight, but a rewriter ran: no verdict
            mut(6, k=2, vals=[V1], ann=T("td", "", [], [T("req", "a", [INT])])),      # a TypedDict where no record was seen
            same, same_ok,
            mut(9, k=1, tds=[{"name": "XTypedDict__RENAME_ME__", "nkeys": 2}], vals=[D(("a", V1), ("b", V1))],
                ann=T("td", "", [], [T("req", "a", [INT]), T("req", "b", [INT])]))], {
        1: set(), 2: {"EndToEndSound"}, 3: {"EndToEndTight"}, 4: {"AnnotationResolves"}, 5: set(), 6: {"TypedDictOnlyFromRecords"},
        7: {"OrderAndProcessFree"}, 8: set(), 9: {"StubTDBound"}}


def decode_cases():
    base = {"tid": 1, "cmd": "stub", "verbose": False, "kinds": ["valid", "function_removed"], "rc": 0, "crashed": "NONE", "same": True,
            "stub_present": True, "count": 1, "warnings": 0, "no_traces_msg": False}

    def mut(tid, **kw):
        return dict(copy.deepcopy(base), tid=tid, **kw)
    return [base, mut(2, rc=1), mut(3, crashed="NameLookupError"), mut(4, same=False), mut(5, count=-1), mut(6, count=2),
            mut(7, verbose=True, warnings=0), mut(8, verbose=True, warnings=1), mut(9, kinds=["function_removed"], stub_present=True),
            mut(10, kinds=["function_removed"], stub_present=False, no_traces_msg=True),
            mut(11, cmd="stub_diff", verbose=True, warnings=2), mut(12, kinds=["valid", "dunder_removed"], count=-1),
            # every decodable row belongs to another module now: no stub for this one, the stale row is still counted
            mut(13, kinds=["moved_function", "function_removed"], stub_present=False, no_traces_msg=True, count=1),
            mut(14, kinds=["moved_function", "function_removed"], stub_present=False, no_traces_msg=True, count=-1),
            mut(15, kinds=["moved_function"], stub_present=True, no_traces_msg=False, count=-1)], {
        1: set(), 2: {"NeverFatal"}, 3: {"NeverFatal"}, 4: {"OutputEqualsDecodableOnly"}, 5: {"CountReported"}, 6: {"CountReported"},
        7: {"EachReported"}, 8: set(), 9: {"NoTracesSaid"}, 10: set(), 11: set(), 12: {"CountReported"},
        13: set(), 14: {"CountReported"}, 15: {"NoTracesSaid"}}


def interfere_cases():
    base = {"tid": 1, "hooks": [{"role": "arg", "proto": "__eq__", "inside": False}], "obsU": ["1"], "obsT": ["1"], "prevOK": True,
            "flushes": 1, "escaped": "NONE"}

    def mut(tid, **kw):
        return dict(copy.deepcopy(base), tid=tid, **kw)
    return [base, mut(2, hooks=[{"role": "arg", "proto": "__eq__", "inside": True}]), mut(3, obsT=["2"]), mut(4, escaped="RuntimeError"),
            mut(5, prevOK=False), mut(6, flushes=0), mut(7, flushes=3)], {
        1: set(), 2: {"NoUserCode"}, 3: {"SameBehaviour"}, 4: {"Contained"}, 5: {"Restored"}, 6: {"FlushedOnce"}, 7: {"FlushedOnce"}}


def filter_cases():
    root = ["lib", "r1"]

    def adm(tid, resolved, verdict, allow=(), module=("proj", "m"), kind="real"):
        return {"tid": tid, "ev": "Admit", "kind": kind, "resolved": resolved, "roots": [root], "module": list(module), "allow": list(allow),
                "allowset": bool(allow), "stem": resolved[-1][:-3] if resolved else "", "verdict": verdict, "modules": [], "expected": [], "got": []}
    run = {"tid": 7, "ev": "Run", "modules": ["usermod"], "expected": ["usermod.f"], "got": ["usermod.f"], "kind": "", "resolved": [], "roots": [],
           "module": [], "allow": [], "allowset": False, "stem": "", "verdict": False}
    return [adm(1, ["proj", "m.py"], True), adm(2, ["proj", "m.py"], False), adm(3, ["lib", "r1", "pkg", "m.py"], True, module=("pkg", "m")),
            adm(4, ["lib", "r1", "pkg", "m.py"], False, module=("pkg", "m")), adm(5, [], True, kind="synthetic", module=("x",)),
            adm(6, ["lib", "r1", "pkg", "m.py"], True, allow=["pkg"], module=("pkg", "m")), run,
            dict(run, tid=8, modules=["__main__", "usermod"], got=["__main__.g", "usermod.f"]), dict(run, tid=9, got=[])], {
        1: set(), 2: {"UnderAdmits"}, 3: {"OverAdmits"}, 4: set(), 5: {"OverAdmits"}, 6: set(), 7: set(), 8: {"NeverMain"},
        9: {"AllAdmittedRecorded"}}


def apply_cases():
    imp = lambda kind, module, name, alias, block, runtime=False: {"kind": kind, "module": module, "name": name, "alias": alias, "block": block, "runtime": runtime}  # noqa: E731
    pos = {"f": "f1", "pos": "a", "src": "", "stub": "int", "res": "int", "src_raw": "", "res_raw": "int"}
    base = {"tid": 1, "overwrite": False, "confine": True, "failed": False, "parses": True, "erasure": True, "idempotent": True, "importable": True,
            "behaviour": True, "future_first": True, "src_imports": [imp("import", "zshapes", "", "", "top", True)],
            "res_imports": [imp("import", "zshapes", "", "", "top", True), imp("from", "zshapes", "Circle", "", "tc")],
            "stub_imports": [{"module": "zshapes", "name": "Circle"}], "positions": [pos], "idem_delta": ""}

    def mut(tid, **kw):
        r = dict(copy.deepcopy(base), tid=tid)
        for k2, v in kw.items():
            if k2 in r:
                r[k2] = v
            else:
                r["positions"][0][k2] = v
        return r
    return [base, mut(2, erasure=False), mut(3, idempotent=False), mut(4, res=""), mut(5, res_imports=[imp("from", "zshapes", "Circle", "", "tc")]),
            mut(6, res_imports=base["res_imports"][:1] + [imp("from", "zshapes", "Circle", "", "top")]), mut(7, importable=False),
            mut(8, future_first=False), mut(9, failed=True), mut(10, src="str", src_raw="str", res="int", res_raw="int"),
            mut(11, res_imports=base["res_imports"][:1] + [imp("from", "zshapes", "Circle", "", "tc", True)]),
            # the stub's import was taken out of the run-time part and put nowhere; and the same with `import m` left for `m.X`
            mut(12, stub_imports=[{"module": "zsh.deep", "name": "Deep"}], res_imports=base["res_imports"][:1]),
            mut(13, stub_imports=[{"module": "zshapes", "name": "Square"}], res_imports=base["res_imports"][:1])], {
        1: set(), 2: {"ErasureEqual"}, 3: {"Idempotent"}, 4: {"AnnotationsPresent"}, 5: {"ExistingUnmoved"}, 6: {"ConfinedAllNew"},
        7: {"Importable"}, 8: {"FutureFirst"}, 9: {"ApplyFails"}, 10: {"ExistingKept"}, 11: {"ConfinedOnlyNewAnnotationOnly"},
        12: {"ConfinedAllNew"}, 13: set()}


def rewrite_cases():
    """One RewriteLargeUnion(2) step each: what may and what may not differ between input and output (OnlyOnTrigger, positionally)."""
    T = absmodel.T
    INT, STR, FLT, ANY = T("cls", "int"), T("cls", "str"), T("cls", "float"), T("any")
    U = lambda *ms: T("union", "", [], list(ms))  # noqa: E731
    tup = lambda x: T("tuple", "", [x, INT, INT])  # noqa: E731
    u3 = U(INT, STR, FLT)

    def rec(tid, pre, post):
        return {"tid": tid, "chain": ["RLU2"], "cname": "RLU2", "pre": pre, "post": post, "err": "NONE", "seen": [],
                "steps": [{"rw": "RLU2", "n": 0, "rawu": 3, "pre": pre, "post": post, "err": "NONE"}]}
    return [rec(1, u3, ANY),                                        # the large union itself collapses
            rec(2, T("list", "", [u3]), T("list", "", [ANY])),      # ... inside a container
            rec(3, U(tup(u3), INT), U(tup(ANY), INT)),              # ... inside a member of a small union
            rec(4, U(tup(u3), tup(ANY)), tup(ANY)),                 # two members that coincide afterwards
            rec(5, U(tup(u3), tup(ANY)), ANY),                      # the SMALL union collapsed: no trigger at that node
            rec(6, U(tup(u3), INT), U(tup(ANY), STR)),              # a member changed that carries no trigger
            rec(7, U(INT, STR), U(INT, STR))], {
        1: set(), 2: set(), 3: set(), 4: set(), 5: {"OnlyOnTrigger"}, 6: {"OnlyOnTrigger"}, 7: set()}


def main():
    envgen.load_fixture_classes()
    env = {"MTEnv.tla": envgen.mtenv_text()}
    ok = True
    recs, want = infer_cases()
    ok &= expect("infer", "MTInferTrace", "MTInferTrace.cfg", recs, want, env)
    recs, want = tracer_cases()
    ok &= expect("tracer", "MTTracerTrace", "MTInferTrace.cfg", recs, want, env)
    recs, want = store_cases()
    ok &= expect("store", "MTStoreTrace", "MTInferTrace.cfg", recs, want)
    recs, want = stub_cases()
    ok &= expect("stub", "MTStubTrace", "MTInferTrace.cfg", recs, want, env)
    recs, want = pipeline_cases()
    ok &= expect("pipeline", "MTPipelineTrace", "MTPipelineTrace.cfg", recs, want, env)
    recs, want = decode_cases()
    ok &= expect("decode", "MTDecodeTrace", "MTDecodeTrace.cfg", recs, want)
    recs, want = interfere_cases()
    ok &= expect("interfere", "MTInterfereTrace", "MTInferTrace.cfg", recs, want)
    recs, want = filter_cases()
    ok &= expect("filter", "MTFilterTrace", "MTInferTrace.cfg", recs, want)
    recs, want = rewrite_cases()
    from . import replay_rewrite
    ok &= expect("rewrite", "MTRewriteTrace", None, recs, want, dict(env, **{"MTRewriteTrace.cfg": replay_rewrite.trace_cfg()}))
    recs, want = apply_cases()
    ok &= expect("apply", "MTApplyTrace", None, recs, want,
                 {"MTApplyTrace.cfg": "SPECIFICATION Spec\nCONSTANTS\n  Dev_RemoveByModule = FALSE\nCHECK_DEADLOCK FALSE\n"})
    return 0 if ok else 2


if __name__ == "__main__":
    sys.exit(main())
