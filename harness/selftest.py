"""Self-test of the binding (run by setup.sh and by `./check selftest`): hand-made traces, each one correct
except for ONE corrupted field or one dropped event, must be rejected by the trace specs with the expected
clause, and the uncorrupted ones must be accepted.  This guards against vacuous trace specs."""
import copy
import sys

from . import absmodel, envgen, tlc
from .absmodel import T

INT, STR, NONE = T("cls", "int"), T("cls", "str"), T("cls", "NoneType")
V1, VS, VN = T("atom", "int"), T("str", "a"), T("atom", "NoneType")
ABSENT = absmodel.ABSENT


def expect(name, spec, cfg, records, wanted, extra=None):
    """wanted: tid -> set of clauses that must be reported (empty set = must be accepted)."""
    verdicts, *_ = tlc.validate_shards(spec, cfg, records, shards=1, extra_files=extra)
    got = {v["tid"]: set(v.get("viol", [])) for v in verdicts}
    ok = True
    for tid, w in wanted.items():
        g = got.get(tid, set())
        if (w and not w <= g) or (not w and g):
            print("SELFTEST FAIL %s: trace %s expected %s got %s" % (name, tid, sorted(w), sorted(g)))
            ok = False
    print("selftest %-10s %s (%d traces)" % (name, "ok" if ok else "FAILED", len(records)))
    return ok


def infer_cases():
    good = {"tid": 1, "k": 2, "k1": 2, "vals": [V1, VS], "runs": [{"ty": T("union", "", [], [INT, STR]), "err": "NONE"}]}
    narrow = copy.deepcopy(good)
    narrow.update(tid=2)
    narrow["runs"][0]["ty"] = INT                                        # a value no longer fits
    wide = copy.deepcopy(good)
    wide.update(tid=3)
    wide["runs"][0]["ty"] = T("union", "", [], [INT, STR, NONE])          # an alternative nobody witnessed
    td = {"tid": 4, "k": 1, "k1": 1, "vals": [T("dict", "", [T("pair", "", [T("str", "a"), V1]), T("pair", "", [T("str", "b"), V1])])],
          "runs": [{"ty": T("td", "", [], [T("req", "a", [INT]), T("req", "b", [INT])]), "err": "NONE"}]}   # 2 keys, limit 1
    order = copy.deepcopy(good)
    order.update(tid=5)
    order["runs"].append({"ty": T("union", "", [], [INT, STR, T("cls", "bool")]), "err": "NONE"})
    return [good, narrow, wide, td, order], {1: set(), 2: {"Sound"}, 3: {"Tight"}, 4: {"TDBound"}, 5: {"OrderFree"}}


def tracer_cases():
    call = {"ev": "Call", "fid": 1, "f": "f", "kind": "plain", "wanted": True, "caller": 0, "catch": True, "drawn": False, "draw": 0,
            "args": [{"n": "a", "v": V1}]}
    ret = {"ev": "Return", "fid": 1, "how": "expr", "v": VS}
    log = {"ev": "Log", "fid": 0, "f": "f", "known": True, "model": "F", "args": [{"n": "a", "ty": INT}], "ret": STR, "ys": ABSENT}
    end = {"ev": "End", "fid": 0, "resid": 0, "flushes": 1, "err": "NONE"}

    def tr(tid, events, rate=0):
        return {"tid": tid, "rate": rate, "k": 0, "events": copy.deepcopy(events)}
    good = tr(1, [call, ret, log, end])
    dropped = tr(2, [call, ret, end])                                        # the Log event removed
    twice = tr(3, [call, ret, log, log, end])                                # logged twice
    wrongarg = tr(4, [call, ret, dict(log, args=[{"n": "a", "ty": STR}]), end])
    noret = tr(5, [call, ret, dict(log, ret=ABSENT), end])
    resid = tr(6, [call, ret, log, dict(end, resid=1)])
    sampled_skip = tr(7, [call, ret, end], rate=2)                           # allowed under sampling
    sampled_lost = tr(8, [dict(call, drawn=True, draw=0), ret, end], rate=2)  # the draw said "trace" but nothing was logged
    return [good, dropped, twice, wrongarg, noret, resid, sampled_skip, sampled_lost], {
        1: set(), 2: {"MissingLog"}, 3: {"SpuriousLog"}, 4: {"ArgTypes"}, 5: {"ReturnPresent"}, 6: {"Residue"}, 7: set(),
        8: {"SampledCallNotLogged"}}


def store_cases():
    def row(q, key="k"):
        return {"mod": "m", "qn": [ord(c) for c in q], "key": key}
    r1, r2 = row("f"), row("g")
    start = {"ev": "AddStart", "c": "c1", "b": "b1", "rows": [r1, r2], "nbad": 0}
    okend = {"ev": "AddEnd", "c": "c1", "b": "b1", "ok": True, "err": ""}
    full = {"ev": "Check", "rows": [dict(r1, cnt=1), dict(r2, cnt=1)], "integrity": "ok"}
    half = {"ev": "Check", "rows": [dict(r1, cnt=1)], "integrity": "ok"}
    empty = {"ev": "Check", "rows": [], "integrity": "ok"}
    fl = {"ev": "Filter", "c": "c2", "m": "m", "p": [0], "n": 2000, "res": [r1, r2]}
    good = {"tid": 1, "events": [start, okend, full, fl]}
    torn = {"tid": 2, "events": [start, half]}                                # half a batch visible
    lost = {"tid": 3, "events": [start, okend, full, empty]}                   # a committed batch disappears
    extra = {"tid": 4, "events": [start, okend, dict(fl, p=[ord("f")])]}      # prefix f returns g as well
    inflight = {"tid": 5, "events": [start, empty, full, okend]}              # becoming visible while in flight is fine
    return [good, torn, lost, extra, inflight], {1: set(), 2: {"Atomic"}, 3: {"Atomic"}, 4: {"FilterExact"}, 5: set()}


def stub_cases():
    cell = {"pos": "a", "self": False, "defnone": False, "src": ABSENT, "traced": INT, "got": INT}
    f = {"key": "f", "count": 1, "placed": True, "decok": True, "asyncok": True, "live": [{"name": "a", "kind": "poskw", "default": False}],
         "stub": [{"name": "a", "kind": "poskw", "default": False}], "cells": [cell], "srcret": ABSENT, "tret": STR, "tyld": ABSENT, "gotret": STR}
    base = {"tid": 1, "strategy": "REPLICATE", "parses": True, "extra": [], "tdok": True, "funcs": [f]}

    def mut(tid, **kw):
        r = copy.deepcopy(base)
        r["tid"] = tid
        for k, v in kw.items():
            if k in r:
                r[k] = v
            elif k in r["funcs"][0]:
                r["funcs"][0][k] = v
            else:
                r["funcs"][0]["cells"][0][k] = v
        return r
    return [base, mut(2, got=STR), mut(3, got=T("unresolved", "pkg")), mut(4, parses=False), mut(5, extra=["g"]),
            mut(6, stub=[{"name": "a", "kind": "kwonly", "default": False}]), mut(7, gotret=T("iterator", "", [STR])),
            mut(8, src=STR, got=INT)], {
        1: set(), 2: {"DenotesSame"}, 3: {"SelfContained"}, 4: {"Parses"}, 5: {"ExactlyTraced"}, 6: {"MirrorsSignature"},
        7: {"DenotesSame"}, 8: {"AnnotationMatrix"}}


def main():
    envgen.load_fixture_classes()
    env = {"MTEnv.tla": envgen.mtenv_text()}
    ok = True
    recs, want = infer_cases()
    ok &= expect("infer", "MTInferTrace", "MTInferTrace.cfg", recs, want, env)
    recs, want = tracer_cases()
    ok &= expect("tracer", "MTTracerTrace", "MTInferTrace.cfg", recs, want, env)
    recs, want = store_cases()
    ok &= expect("store", "MTStoreTrace", "MTInferTrace.cfg", recs, want)
    recs, want = stub_cases()
    ok &= expect("stub", "MTStubTrace", "MTInferTrace.cfg", recs, want, env)
    return 0 if ok else 2


if __name__ == "__main__":
    sys.exit(main())
