"""Source text of the scripted fixture modules for the tracer replays (C02, C03, C17b, C18).

Every function body is the same small interpreter of the script (fixtures/mtfx/script.py); the
functions differ in kind (module function, instance/class/static method, property, inherited,
reached through super(), functools.wraps-decorated, generator, coroutine) and in their
parameter lists (positional-only, keyword-only, defaulted, *args, **kwargs)."""

HEADER = '''"""GENERATED scripted fixtures - see harness/gen_traced.py"""
import types as S_types
from mtfx.script import S, Boom as S_Boom, Suspender, deco as S_deco

'''

BODY = '''{ind}while True:
{ind}    _op, _val = S.next()
{ind}    if _op == "do":
{ind}        S.do(_val)
{ind}    elif _op == "do_catch":
{ind}        try:
{ind}            S.do(_val)
{ind}        except S_Boom:
{ind}            S.caught()
{ind}    elif _op == "ret_expr":
{ind}        return _val
{ind}    elif _op == "ret_const":
{ind}        return 1
{ind}    elif _op == "raise":
{ind}        raise S_Boom()
{ind}    elif _op == "ret_implicit":
{ind}        break
{ind}    elif _op == "rebind":
{ind}        {p} = _val
{extra}'''

YIELD = '''{ind}    elif _op == "yield":
{ind}        yield _val
{ind}    elif _op == "deleg":
{ind}        yield from S.delegate(_val)
{ind}    elif _op == "deleg_catch":
{ind}        try:
{ind}            yield from S.delegate(_val)
{ind}        except S_Boom:
{ind}            S.caught()
'''
AWAIT = '''{ind}    elif _op == "await":
{ind}        await Suspender()
{ind}    elif _op == "deleg":
{ind}        await S.delegate(_val)
{ind}    elif _op == "deleg_catch":
{ind}        try:
{ind}            await S.delegate(_val)
{ind}        except S_Boom:
{ind}            S.caught()
'''


AGEN_BODY = '''{ind}while True:
{ind}    _op, _val = S.next()
{ind}    if _op == "do":
{ind}        S.do(_val)
{ind}    elif _op == "do_catch":
{ind}        try:
{ind}            S.do(_val)
{ind}        except S_Boom:
{ind}            S.caught()
{ind}    elif _op == "raise":
{ind}        raise S_Boom()
{ind}    elif _op == "ret_implicit":
{ind}        break
{ind}    elif _op == "rebind":
{ind}        {p} = _val
{ind}    elif _op == "yield":
{ind}        yield _val
{ind}    elif _op == "await":
{ind}        await Suspender()
'''


def func(name, params, kind="plain", ind="", deco=None, rebind="a", pre=None):
    if kind == "agen":       # an async generator both yields and awaits, and cannot return a value
        head = "%sasync def %s(%s):\n" % (ind, name, params)
        return head + AGEN_BODY.format(ind=ind + "    ", p=rebind) + "\n"
    extra = {"plain": "", "gen": YIELD, "coro": AWAIT}[kind].format(ind=ind + "    ")
    head = ""
    if deco:
        head += "%s@%s\n" % (ind, deco)
    head += "%s%sdef %s(%s):\n" % (ind, "async " if kind == "coro" else "", name, params)
    if pre:
        head += "%s    %s\n" % (ind, pre)
    return head + BODY.format(ind=ind + "    ", p=rebind, extra=extra) + "\n"


def traced_source():
    s = HEADER
    s += func("f_mod", "a, b=None, *, c=0")
    s += func("f_posonly", "a, /, b=2")
    s += func("f_star", "a, *args, **kwargs")
    s += func("f_pos_star", "a, /, b=2, *rest, **extra")
    s += func("f_kwonly", "*, a, z=None")
    s += func("f_wrapped", "a, b=1", deco="S_deco")
    # a function that carries ANOTHER function's metadata (`@functools.wraps(old)` on a same-named replacement, an override
    # documented by `wraps(Base.render)`): its own code runs; __wrapped__ points elsewhere
    s += func("f_wraps_other", "a, b=None")
    s += "f_wraps_other.__wrapped__ = f_mod\n\n\n"
    s += func("trace_types", "a, b=None")      # an ordinary user function that happens to be called like this
    s += func("g_mod", "a, b=0", kind="gen")
    s += func("c_mod", "a", kind="coro")
    s += func("ag_mod", "a, b=0", kind="agen")
    # a generator-based coroutine (types.coroutine only sets CO_ITERABLE_COROUTINE): its yields ARE yields
    s += func("g_typescoro", "a", kind="gen", deco="S_types.coroutine")
    s += "class Kls:\n"
    s += func("m_inst", "self, a, b=None", ind="    ")
    s += func("m_over", "self, a", ind="    ")
    s += func("m_cls", "cls, a", ind="    ", deco="classmethod")
    s += func("m_static", "a, b=3", ind="    ", deco="staticmethod")
    s += func("prop", "self", ind="    ", deco="property", rebind="_unused")
    s += func("g_meth", "self, a", ind="    ", kind="gen")
    s += func("c_meth", "self, a", ind="    ", kind="coro")
    s += func("ag_meth", "self, a", ind="    ", kind="agen")
    s += "\nclass Sub(Kls):\n"
    s += func("m_over", "self, a", ind="    ")
    s += "\n"
    # nested functions that refer to themselves (recursion through a free variable): the function object is a
    # local of its OWN frame, which is where the last lookup stage of get_func starts; nobody else holds it
    s += "def _make_nested():\n"
    s += func("rec_inner", "a, depth=0", ind="    ", pre="_me = rec_inner")
    s += func("rec_gen", "a", ind="    ", kind="gen", pre="_me = rec_gen")
    s += "    return {'rec': rec_inner, 'gen': rec_gen}\n\n\n_NESTED = _make_nested()\n\n\n"
    # a class that becomes a module global only LATER (a placeholder `LateKls = None` is re-bound while the program runs:
    # a plugin registered at run time, a re-executed notebook cell); its static method is reachable only through the
    # scan of the module's global classes
    s += "LateKls = None\n\n\nclass _LateHolder:\n    class cls:\n"
    s += func("late_static", "a, b=3", ind="        ", deco="staticmethod")
    s += "\n"
    # a function that no lookup stage of get_func can reach (not a global, not on a class, no local)
    s += func("h_hidden", "a")
    s += "_HIDDEN = {'h': h_hidden}\ndel h_hidden\n"
    return s


def unwanted_source():
    return HEADER + func("u_filtered", "a, b=None")


# real targets per model function.  maker: text of a lambda evaluated in the traced module's namespace
# sig: expression giving the plain function whose signature binds the named parameters
# selfargs: expression giving the receiver list
TARGETS = {
    "F": [
        dict(name="f_mod", maker="lambda: M.f_mod", sig="M.f_mod", selfargs="[]"),
        dict(name="f_mod_kw", maker="lambda: M.f_mod", sig="M.f_mod", selfargs="[]", kw=["c"]),
        dict(name="f_posonly", maker="lambda: M.f_posonly", sig="M.f_posonly", selfargs="[]"),
        dict(name="f_star", maker="lambda: M.f_star", sig="M.f_star", selfargs="[]", extra_pos=2, extra_kw=["zz"]),
        dict(name="f_pos_star", maker="lambda: M.f_pos_star", sig="M.f_pos_star", selfargs="[]", extra_pos=3, extra_kw=["zz", "yy"]),
        dict(name="f_kwonly", maker="lambda: M.f_kwonly", sig="M.f_kwonly", selfargs="[]", kwonly="a"),
        dict(name="f_wrapped", maker="lambda: M.f_wrapped", sig="M.f_wrapped.__wrapped__", selfargs="[]"),
        dict(name="trace_types", maker="lambda: M.trace_types", sig="M.trace_types", selfargs="[]"),
        dict(name="f_wraps_other", maker="lambda: M.f_wraps_other", sig="M.f_wraps_other", selfargs="[]"),
        dict(name="LateKls.late_static", maker="lambda: (setattr(M, 'LateKls', M._LateHolder.cls), M.LateKls.late_static)[1]",
             sig="M._LateHolder.cls.__dict__['late_static'].__func__", selfargs="[]"),
        dict(name="Kls.m_inst", maker="lambda: OBJ.m_inst", sig="M.Kls.m_inst", selfargs="[OBJ]"),
        dict(name="Kls.m_inst(inherited)", maker="lambda: SUB.m_inst", sig="M.Kls.m_inst", selfargs="[SUB]"),
        dict(name="Sub.m_over", maker="lambda: SUB.m_over", sig="M.Sub.m_over", selfargs="[SUB]"),
        dict(name="Kls.m_over(super)", maker="lambda: super(M.Sub, SUB).m_over", sig="M.Kls.m_over", selfargs="[SUB]"),
        dict(name="Kls.m_cls", maker="lambda: M.Kls.m_cls", sig="M.Kls.__dict__['m_cls'].__func__", selfargs="[M.Kls]"),
        dict(name="Kls.m_cls(sub)", maker="lambda: M.Sub.m_cls", sig="M.Kls.__dict__['m_cls'].__func__", selfargs="[M.Sub]"),
        dict(name="Kls.m_static", maker="lambda: M.Kls.m_static", sig="M.Kls.__dict__['m_static'].__func__", selfargs="[]"),
        dict(name="nested rec_inner", maker="lambda: M._NESTED['rec']", sig="M._NESTED['rec']", selfargs="[]"),
        dict(name="Kls.prop", maker="lambda: (lambda *a: OBJ.prop)", sig="M.Kls.__dict__['prop'].fget", selfargs="[OBJ]", noargs=True),
        # the same functions of the byte-identical twin module (equal code objects, different functions)
        dict(name="twin f_mod", maker="lambda: MT.f_mod", sig="MT.f_mod", selfargs="[]"),
        dict(name="twin Kls.m_inst", maker="lambda: TOBJ.m_inst", sig="MT.Kls.m_inst", selfargs="[TOBJ]"),
        dict(name="twin Kls.m_static", maker="lambda: MT.Kls.m_static", sig="MT.Kls.__dict__['m_static'].__func__", selfargs="[]"),
        # ... and of the same FILE loaded a second time under another module name (same file name, lines and names)
        dict(name="again f_mod", maker="lambda: MA.f_mod", sig="MA.f_mod", selfargs="[]"),
        dict(name="again Kls.m_inst", maker="lambda: AOBJ.m_inst", sig="MA.Kls.m_inst", selfargs="[AOBJ]"),
    ],
    "G": [
        dict(name="g_mod", maker="lambda: M.g_mod", sig="M.g_mod", selfargs="[]"),
        dict(name="Kls.g_meth", maker="lambda: OBJ.g_meth", sig="M.Kls.g_meth", selfargs="[OBJ]"),
        dict(name="nested rec_gen", maker="lambda: M._NESTED['gen']", sig="M._NESTED['gen']", selfargs="[]"),
        dict(name="twin g_mod", maker="lambda: MT.g_mod", sig="MT.g_mod", selfargs="[]"),
        dict(name="again g_mod", maker="lambda: MA.g_mod", sig="MA.g_mod", selfargs="[]"),
        dict(name="g_typescoro", maker="lambda: M.g_typescoro", sig="M.g_typescoro", selfargs="[]"),
    ],
    "C": [
        dict(name="c_mod", maker="lambda: M.c_mod", sig="M.c_mod", selfargs="[]"),
        dict(name="Kls.c_meth", maker="lambda: OBJ.c_meth", sig="M.Kls.c_meth", selfargs="[OBJ]"),
    ],
    "A": [
        dict(name="ag_mod", maker="lambda: M.ag_mod", sig="M.ag_mod", selfargs="[]"),
        dict(name="Kls.ag_meth", maker="lambda: OBJ.ag_meth", sig="M.Kls.ag_meth", selfargs="[OBJ]"),
    ],
    "U": [
        dict(name="u_filtered", maker="lambda: MU.u_filtered", sig="MU.u_filtered", selfargs="[]"),
        dict(name="h_hidden", maker="lambda: M._HIDDEN['h']", sig="M._HIDDEN['h']", selfargs="[]"),
    ],
}
