"""Projection of stub text (trusted, written without importing monkeytype): abs_stub / eval_annotation.

abs_stub(text, own_ns) parses the stub with `ast`, executes ONLY its import statements in an empty
namespace (plus builtins and the target module's own classes, as the properties prescribe),
registers its TypedDict class stubs, and evaluates every annotation string in that namespace.
An annotation that does not resolve is the recorded outcome {"k": "unresolved", "n": <name>}.
"""
import ast
import builtins
import typing

from . import absmodel
from .absmodel import T


def _kind(args, a):
    if a in args.posonlyargs:
        return "posonly"
    if a in args.args:
        return "poskw"
    if a is args.vararg:
        return "varpos"
    if a in args.kwonlyargs:
        return "kwonly"
    return "varkw"


def params_of(fn):
    args = fn.args
    out = []
    pos = args.posonlyargs + args.args
    ndef = len(args.defaults)
    for i, a in enumerate(pos):
        out.append((a, _kind(args, a), i >= len(pos) - ndef))
    if args.vararg:
        out.append((args.vararg, "varpos", False))
    for a, d in zip(args.kwonlyargs, args.kw_defaults):
        out.append((a, "kwonly", d is not None))
    if args.kwarg:
        out.append((args.kwarg, "varkw", False))
    return out


class StubEval:
    def __init__(self, own_ns=None):
        self.ns = {"__builtins__": builtins}
        self.ns.update(own_ns or {})
        self.dup_td = False   # two TypedDict class stubs with one name and different bodies
        self.td = {}          # class name -> {"base": name|None, "total": bool, "fields": {key: ast expr}}
        self.import_errors = []

    def do_imports(self, tree):
        for node in tree.body:
            if isinstance(node, (ast.Import, ast.ImportFrom)):
                try:
                    exec(compile(ast.Module([node], []), "<stub import>", "exec"), self.ns)
                except Exception as e:
                    self.import_errors.append("%s: %s" % (type(e).__name__, e))

    def register_typed_dicts(self, tree):
        for node in tree.body:
            if isinstance(node, ast.ClassDef):
                bases = [ast.unparse(b) for b in node.bases]
                total = True
                for kw in node.keywords:
                    if kw.arg == "total":
                        total = bool(ast.literal_eval(kw.value))
                is_td = any(b == "TypedDict" or b in self.td for b in bases)
                if is_td:
                    base = next((b for b in bases if b in self.td), None)
                    fields = {st.target.id: st.annotation for st in node.body if isinstance(st, ast.AnnAssign)}
                    new = {"base": base, "total": total, "fields": fields, "bases": bases}
                    old = self.td.get(node.name)
                    if old is not None and ({k: ast.unparse(v) for k, v in old["fields"].items()}, old["total"], old["base"]) != \
                            ({k: ast.unparse(v) for k, v in fields.items()}, total, base):
                        self.dup_td = True
                    self.td[node.name] = new

    def named_td(self, name, depth=0):
        """Abstract TypedDict type denoted by class stub `name` (fields of non-total classes are optional)."""
        flds, cur = [], name
        seen = set()
        while cur is not None and cur in self.td and cur not in seen:
            seen.add(cur)
            c = self.td[cur]
            for key, expr in c["fields"].items():
                flds.append(T("req" if c["total"] else "opt", key, [self.eval_expr(expr, depth + 1)]))
            cur = c["base"]
        if not self.td_base_ok(name):
            return T("unresolved", "TypedDict")
        return T("td", "", [], sorted(flds, key=absmodel.canon))

    def td_base_ok(self, name):
        """The chain must end in the name TypedDict, and that name must be provided by the stub's imports."""
        cur = name
        while cur in self.td and self.td[cur]["base"]:
            cur = self.td[cur]["base"]
        return "TypedDict" in self.td[cur]["bases"] and "TypedDict" in self.ns

    def eval_expr(self, expr, depth=0):
        if depth > 30:
            return T("other", "too deep")
        try:
            val = eval(compile(ast.Expression(expr), "<annotation>", "eval"), dict(self.ns, **{n: _TDRef(n) for n in self.td}))
        except NameError as e:
            return T("unresolved", getattr(e, "name", None) or str(e))
        except AttributeError as e:
            return T("unresolved", "attr:" + str(getattr(e, "name", e)))
        except Exception as e:
            return T("unresolved", "%s:%s" % (type(e).__name__, e))
        return self.abs(val, depth)

    def abs(self, val, depth=0):
        """abs_type with forward references / class stubs resolved through the stub's own definitions."""
        t = absmodel.abs_type(_unwrap(val))
        return self.resolve(t, depth)

    def resolve(self, t, depth):
        if t["k"] == "fwd":
            name = t["n"]
            if name in self.td:
                return self.named_td(name, depth)
            try:
                return self.eval_expr(ast.parse(name, mode="eval").body, depth + 1)
            except SyntaxError:
                return T("unresolved", name)
        if t["k"] == "other" and t["n"].startswith("tdref:"):
            return self.named_td(t["n"][6:], depth)
        out = dict(t)
        out["a"] = [self.resolve(x, depth + 1) for x in t["a"]]
        out["u"] = [self.resolve(x, depth + 1) for x in t["u"]]
        if out["k"] == "union":      # members may have collapsed
            seen = {}
            for m in out["u"]:
                for x in (m["u"] if m["k"] == "union" else [m]):
                    seen[absmodel.canon(x)] = x
            ms = [seen[k] for k in sorted(seen)]
            return ms[0] if len(ms) == 1 else T("union", "", [], ms)
        return out


class _TDRef:
    """Stands for a TypedDict class stub inside evaluated annotations (List[FooTypedDict])."""

    def __init__(self, name):
        self.name = name

    def __call__(self, *a, **k):   # typing accepts callables as type arguments
        raise TypeError("not callable")


def _unwrap(val):
    return val


_orig_abs_type = absmodel.abs_type


def _abs_type_with_tdref(t, table=absmodel.TABLE, depth=0):
    if isinstance(t, _TDRef):
        return T("other", "tdref:" + t.name)
    return _orig_abs_type(t, table, depth)


absmodel.abs_type = _abs_type_with_tdref


def abs_stub(text, own_ns=None):
    """-> {"parses", "imports", "classes", "funcs", "typed_dicts", "import_errors"}"""
    try:
        tree = ast.parse(text)
    except SyntaxError as e:
        return {"parses": False, "error": str(e), "imports": [], "funcs": [], "typed_dicts": [], "classes": [], "import_errors": []}
    ev = StubEval(own_ns)
    ev.do_imports(tree)
    ev.register_typed_dicts(tree)
    imports = []
    for node in tree.body:
        if isinstance(node, ast.ImportFrom):
            imports += [{"module": node.module or "", "name": a.name} for a in node.names]
        elif isinstance(node, ast.Import):
            imports += [{"module": a.name, "name": ""} for a in node.names]
    funcs, classes = [], []

    def walk(body, path):
        for node in body:
            if isinstance(node, (ast.FunctionDef, ast.AsyncFunctionDef)):
                ps = []
                for a, kind, has_default in params_of(node):
                    ps.append({"name": a.arg, "kind": kind, "default": has_default,
                               "ann": T("absent") if a.annotation is None else ev.eval_expr(a.annotation),
                               "ann_text": "" if a.annotation is None else ast.unparse(a.annotation)})
                funcs.append({"class_path": list(path), "name": node.name, "async": isinstance(node, ast.AsyncFunctionDef),
                              "decorators": [ast.unparse(d) for d in node.decorator_list], "params": ps,
                              "ret": T("absent") if node.returns is None else ev.eval_expr(node.returns),
                              "ret_text": "" if node.returns is None else ast.unparse(node.returns)})
            elif isinstance(node, ast.ClassDef) and node.name not in ev.td:
                classes.append({"path": list(path) + [node.name]})
                walk(node.body, path + [node.name])

    def roots(expr, acc):
        for n in ast.walk(expr):
            if isinstance(n, ast.Name) and n.id not in ev.ns and n.id not in ev.td and not hasattr(builtins, n.id):
                acc.add(n.id)
            elif isinstance(n, ast.Constant) and isinstance(n.value, str):
                try:
                    roots(ast.parse(n.value, mode="eval").body, acc)
                except SyntaxError:
                    pass
    unres_sig, unres_td = set(), set()
    for node in ast.walk(tree):
        if isinstance(node, (ast.FunctionDef, ast.AsyncFunctionDef)):
            for a, _, _ in params_of(node):
                if a.annotation is not None:
                    roots(a.annotation, unres_sig)
            if node.returns is not None:
                roots(node.returns, unres_sig)
    for c in ev.td.values():
        for expr in c["fields"].values():
            roots(expr, unres_td)

    walk(tree.body, [])
    tds = [{"name": n, "base": c["base"] or "", "total": c["total"], "keys": sorted(c["fields"]),
            "ty": ev.named_td(n)} for n, c in ev.td.items()]
    return {"parses": True, "imports": imports, "funcs": funcs, "classes": classes, "typed_dicts": tds,
            "import_errors": ev.import_errors, "_ev": ev, "unres_sig": sorted(unres_sig), "unres_td": sorted(unres_td), "dup_td": ev.dup_td}
