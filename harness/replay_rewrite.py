"""C07: replay TLC's type universes (and really-inferred types with their witness values) into the
real shipped rewriters; TLC decides NoCrash / NeverNarrows / OnlyOnTrigger (MTRewriteP)."""
import concurrent.futures
import itertools
import json
import random
import typing

from . import absmodel, core, envgen, tlc, universe
from .absmodel import canon

DEPS = ["MTValues", "MTTypeUniverse"]
SINGLES = ["REC", "RCD", "RLU2", "RLU5", "MSCB", "RG", "NOOP"]


def _rewriters():
    from monkeytype import typing as mt
    return {
        "REC": mt.RemoveEmptyContainers(), "RCD": mt.RewriteConfigDict(), "RLU2": mt.RewriteLargeUnion(2),
        "RLU5": mt.RewriteLargeUnion(5), "MSCB": mt.RewriteMostSpecificCommonBase(),
        "RG": mt.RewriteGenerator(), "NOOP": mt.NoOpRewriter(),
    }


def name_of(rw):
    """Name a live rewriter instance (used for the links of DEFAULT_REWRITER)."""
    from monkeytype import typing as mt
    table = [(mt.RemoveEmptyContainers, "REC"), (mt.RewriteConfigDict, "RCD"), (mt.RewriteMostSpecificCommonBase, "MSCB"),
             (mt.RewriteGenerator, "RG"), (mt.NoOpRewriter, "NOOP")]
    for cls, n in table:
        if type(rw) is cls:
            return n, 0
    if type(rw) is mt.RewriteLargeUnion:
        n = rw.max_union_len
        return ("RLU%d" % n if n in (2, 5) else "RLUn"), n
    return "OTHER", 0


def raw_max_union(t, depth=0):
    """Largest len(__args__) of any typing.Union object inside the real type (duplicates included)."""
    best = 0
    if depth > 30:
        return 0
    if typing.get_origin(t) is typing.Union:
        best = len(t.__args__)
    ann = getattr(t, "__annotations__", None)
    kids = list(getattr(t, "__args__", ()) or ())
    if isinstance(ann, dict) and isinstance(t, type):
        kids += list(ann.values())
    for a in kids:
        if a is not Ellipsis and not isinstance(a, (tuple, list)):
            best = max(best, raw_max_union(a, depth + 1))
    return best


def _apply(rw, t):
    try:
        return absmodel.abs_type(rw.rewrite(t)), "NONE", None
    except Exception as e:
        return absmodel.ABSENT, type(e).__name__, None


def run_one(tid, real_t, chain_name, seen_abs, RW):
    """Run one (type, rewriter|chain) and record what really happened, link by link."""
    from monkeytype import typing as mt
    if chain_name == "DEFAULT":
        top = mt.DEFAULT_REWRITER
        links = [(name_of(r), r) for r in top.rewriters]
    elif "+" in chain_name:
        names = chain_name.split("+")
        links = [((n, 0), RW[n]) for n in names]
        top = mt.ChainedRewriter([RW[n] for n in names])
    else:
        links = [((chain_name, 0), RW[chain_name])]
        top = RW[chain_name]
    pre = absmodel.abs_type(real_t)
    try:
        out = top.rewrite(real_t)
        post, err = absmodel.abs_type(out), "NONE"
    except Exception as e:
        post, err = absmodel.ABSENT, type(e).__name__
    steps, cur = [], real_t
    for (n, num), r in links:
        spre = absmodel.abs_type(cur)
        rawu = raw_max_union(cur)
        try:
            cur = r.rewrite(cur)
            steps.append({"rw": n, "n": num, "rawu": rawu, "pre": spre, "post": absmodel.abs_type(cur), "err": "NONE"})
        except Exception as e:
            steps.append({"rw": n, "n": num, "rawu": rawu, "pre": spre, "post": absmodel.ABSENT, "err": type(e).__name__})
            break
    return {"tid": tid, "chain": [s["rw"] for s in steps] or [chain_name], "cname": chain_name, "pre": pre,
            "post": post, "err": err, "seen": seen_abs, "steps": steps}


def real_type_ordered(t, first=None):
    """Build the typing object; for a top-level union optionally put member `first` first."""
    from monkeytype.typing import make_typed_dict
    mk = lambda req, opt: make_typed_dict(required_fields=req, optional_fields=opt)  # noqa: E731
    if t["k"] == "union" and first is not None:
        ms = sorted(t["u"], key=canon)
        ms = [ms[i] for i in first] if isinstance(first, list) else ms[first:] + ms[:first]      # a permutation / a rotation
        return typing.Union[tuple(absmodel.real_type(m, make_td=mk) for m in ms)]
    return absmodel.real_type(t, make_td=mk)


def _run_chunk(chunk):
    core.use_repo()
    envgen.load_fixture_classes()
    from monkeytype.typing import get_type, shrink_types
    RW = _rewriters()
    out = []
    for job in chunk:
        if job["kind"] == "type":
            rt = real_type_ordered(job["t"], job.get("first"))
            seen = []
        else:  # really inferred from values
            reals = [absmodel.real_value(v) for v in job["vals"]]
            rt = shrink_types([get_type(x, job["k"]) for x in reals], job["k"])
            seen = [absmodel.abs_value(x) for x in reals]
        for j, cn in enumerate(job["chains"]):
            rec = run_one(job["tid"] * 100 + j, rt, cn, seen, RW)
            rec["job"] = job["tid"]
            out.append(rec)
    return out


def run_jobs(jobs, procs=16):
    chunks = [jobs[i::procs] for i in range(procs)]
    out = []
    with concurrent.futures.ProcessPoolExecutor(max_workers=procs) as ex:
        for recs in ex.map(_run_chunk, [c for c in chunks if c]):
            out.extend(recs)
    return out


def gen_jobs(tier, seed, env_text):
    TU = lambda name: universe.export("MTRewriteExport", name, DEPS, env_text)  # noqa: E731
    VU = lambda name: universe.export("MTInferExport", name, ["MTValues", "MTUniverse"], env_text)  # noqa: E731
    rng = random.Random(seed)
    jobs, plan = [], []
    pairs = [a + "+" + b for a in SINGLES for b in SINGLES]
    base = SINGLES + ["DEFAULT"]

    def add_types(label, types, chains, rotations=False, permutations=False):
        n0 = len(jobs)
        for t in types:
            firsts = [None]
            if rotations and t["k"] == "union":
                firsts = list(range(len(t["u"])))
            if permutations and t["k"] == "union" and len(t["u"]) <= 5:
                firsts = [list(p) for p in itertools.permutations(range(len(t["u"])))]
            for f in firsts:
                jobs.append({"tid": len(jobs) + 1, "kind": "type", "t": t, "first": f, "chains": chains})
        plan.append({"family": label, "types": len(jobs) - n0, "chains": len(chains)})

    def add_vals(label, cases, chains):
        n0 = len(jobs)
        for vals, k in cases:
            jobs.append({"tid": len(jobs) + 1, "kind": "vals", "vals": vals, "k": k, "chains": chains})
        plan.append({"family": label, "types": len(jobs) - n0, "chains": len(chains)})

    t1small, big, wrap3, tds, deep = TU("t1small"), TU("big"), TU("wrap3"), TU("tds"), TU("deep")
    small1, wide, tiny2 = VU("small1"), VU("wide"), VU("tiny2")
    vpairs = list(itertools.combinations(small1, 2))
    add_types("unions over a three-level class hierarchy, every member first (exhaustive)", deep, base, rotations=True)
    # unions whose members contain unions: an inner union must not disturb the treatment of the outer one
    Ty = absmodel.T
    INT_, STR_, NONE_, ANY_ = Ty("cls", "int"), Ty("cls", "str"), Ty("cls", "NoneType"), Ty("any")
    U_ = lambda *ms: Ty("union", "", [], list(ms))  # noqa: E731
    inners = [U_(Ty("set", "", [INT_]), INT_), U_(Ty("list", "", [STR_]), NONE_), U_(Ty("dict", "", [STR_, INT_]), Ty("list", "", [ANY_])),
              U_(Ty("list", "", [INT_]), Ty("list", "", [ANY_]))]
    wraps = [lambda x: Ty("dict", "", [INT_, x]), lambda x: Ty("list", "", [x]), lambda x: Ty("tuple", "", [x, INT_]),
             lambda x: Ty("set", "", [INT_]) if False else Ty("iterator", "", [x])]
    empties = [Ty("set", "", [ANY_]), Ty("list", "", [ANY_]), Ty("dict", "", [ANY_, ANY_])]
    nested = [U_(w(i), e) for w in wraps for i in inners for e in empties]
    nested += [U_(w(i), e, INT_) for w in wraps[:2] for i in inners[:2] for e in empties]
    add_types("unions whose members contain unions, next to an empty container of another / the same kind, every member first",
              nested, base, rotations=True)
    # application classes NAMED like typing constructs (List, Union, Set, Dict, Generator, Iterator, TypedDict, Tuple): bare,
    # inside containers, in small and in large unions
    look = [Ty("cls", "mtfx.lookalikes." + n) for n in ("List", "Union", "Set", "Dict", "Generator", "Iterator", "TypedDict", "Tuple", "NoneType")]
    lk = []
    for c in look:
        lk += [c, Ty("list", "", [c]), Ty("dict", "", [STR_, c]), U_(c, INT_), U_(c, NONE_), U_(Ty("list", "", [c]), Ty("list", "", [ANY_])),
               Ty("generator", "", [c, NONE_, NONE_]), Ty("tuple", "", [c, INT_])]
    lk += [U_(*look[:6], INT_), U_(*look), U_(look[0], look[1], Ty("cls", "mtfx.shapes.A"), Ty("cls", "mtfx.shapes.B"), INT_, STR_, NONE_)]
    add_types("application classes named like typing constructs, in every shape", lk, base + ["REC+RLU", "RCD+REC"] if False else base, rotations=True)
    # members that COINCIDE once the rewriter has worked inside them (a nested union it collapses, a nested empty container it
    # drops), under wrappers of arity 1..6, next to an empty container, a non-empty one of its kind and a plain class - in every
    # rotation: a rewriter that looks at its own output must not mistake the parts of one member for members, nor lose count
    FLOAT_ = Ty("cls", "float")
    L_ = lambda x: Ty("list", "", [x])  # noqa: E731
    coincide = [(U_(Ty("set", "", [ANY_]), Ty("set", "", [INT_])), Ty("set", "", [INT_])),          # REC inside
                (U_(INT_, STR_, FLOAT_), ANY_),                                                    # RLU2 inside
                (U_(INT_, STR_, FLOAT_, NONE_, Ty("cls", "bytes"), Ty("cls", "bool")), ANY_),        # RLU5 inside
                (U_(Ty("dict", "", [STR_, INT_]), Ty("dict", "", [STR_, STR_])), Ty("dict", "", [STR_, U_(INT_, STR_)])),   # RCD inside
                (U_(Ty("cls", "mtfx.shapes.B2"), Ty("cls", "mtfx.shapes.B3")), Ty("cls", "mtfx.shapes.B"))]             # MSCB inside
    wrapn = [lambda x: L_(x), lambda x: Ty("tuple", "", [L_(x)]), lambda x: Ty("dict", "", [STR_, x]),
             lambda x: Ty("tuple", "", [x, INT_, INT_]), lambda x: Ty("tuple", "", [x] + [INT_] * 5), lambda x: Ty("tuple", "", [x] * 6),
             lambda x: Ty("tuple", "", [Ty("tuple", "", [x]), Ty("tuple", "", [x, x]), Ty("tuple", "", [x, x, x])])]
    tails = [[], [Ty("dict", "", [ANY_, ANY_]), INT_], [Ty("dict", "", [ANY_, ANY_]), INT_, Ty("dict", "", [STR_, INT_])],
             [Ty("list", "", [ANY_]), Ty("cls", "mtfx.shapes.A"), Ty("list", "", [STR_])]]
    coin = []
    for before, after in coincide:
        for w in wrapn:
            for tl in tails:
                coin.append(U_(w(before), w(after), *tl))
                coin.append(U_(w(before), *tl))
    add_types("members that coincide after the rewriter has worked inside them, under wrappers of arity 1..6, every order of the members",
              coin, base, rotations=True, permutations=True)
    # more tuple shapes than a union may have members, the element classes related by inheritance, the narrower / the wider first
    rel = [(Ty("cls", "bool"), INT_), (Ty("cls", "mtfx.shapes.B"), Ty("cls", "mtfx.shapes.A")), (Ty("cls", "mtfx.shapes.D"), Ty("cls", "mtfx.shapes.C"))]
    tupsh = []
    for sub, sup in rel:
        for first, rest in ((sub, sup), (sup, sub)):
            for n in (3, 6, 7):
                tupsh.append(U_(*[Ty("tuple", "", [first] + [rest] * i) for i in range(n)]))
                tupsh.append(U_(Ty("tuple", "", []), *[Ty("tuple", "", [first] + [rest] * i) for i in range(n)]))
                tupsh.append(U_(*[Ty("tuple", "", [first] * (i + 1)) for i in range(n - 1)], Ty("tuple", "", [first, rest])))
    add_types("more tuple shapes than a union may have members, element classes related by inheritance", tupsh, base, rotations=True)
    # what one rewriter produces is the next one's input: homogeneous tuple shapes collapse to Tuple[V, ...], which every
    # later link of a chain traverses; and Tuple[V, ...] handed to each rewriter directly, bare and inside other types
    hom = [U_(*[Ty("tuple", "", [INT_] * i) for i in range(lo, hi)]) for lo, hi in ((0, 7), (1, 7), (0, 4), (1, 4))]
    hom += [U_(*[Ty("tuple", "", [STR_] * i) for i in range(0, 7)]), Ty("list", "", [hom[0]]), Ty("dict", "", [STR_, hom[2]])]
    add_types("homogeneous tuple shapes through chains in which another rewriter follows RewriteLargeUnion", hom,
              base + ["RLU2+RG", "RLU2+REC", "RLU2+RCD", "RLU2+MSCB", "RLU2+NOOP", "RLU5+RG", "RLU5+REC", "RLU2+RLU5"], rotations=True)
    tv = Ty("tuplevar", "", [INT_])
    tvs = [tv, Ty("list", "", [tv]), Ty("dict", "", [STR_, tv]), U_(tv, NONE_), U_(tv, Ty("list", "", [ANY_]), Ty("list", "", [INT_])),
           Ty("tuple", "", [tv, INT_]), Ty("tuplevar", "", [U_(INT_, STR_, FLOAT_)]), Ty("iterator", "", [tv]), Ty("generator", "", [tv, NONE_, NONE_])]
    add_types("Tuple[V, ...] as INPUT of every rewriter, bare and inside other types", tvs, base)
    if tier == "quick":
        add_types("t1small: atoms, containers, all 2-unions (exhaustive)", t1small, base)
        add_types("t1small x all ordered pairs of rewriters (sampled types)", rng.sample(t1small, 300), pairs)
        add_types("big unions 3..8 members, every member first (sampled)", rng.sample(big, 700), base, rotations=True)
        add_types("wrap3 depth-3 (sampled)", rng.sample(wrap3, 600), base)
        add_types("TypedDict types (exhaustive)", tds, base)
        add_vals("inferred from value pairs small1 (sampled) with witnesses",
                 [(list(p), k) for p in rng.sample(vpairs, 1500) for k in (0, 3)], base)
        add_vals("inferred from wide/tiny2 singles with witnesses",
                 [([v], k) for v in wide + tiny2 for k in (0, 3)], base)
        add_vals("inferred from random multisets size 3..7",
                 [(rng.sample(small1 + tiny2, rng.randint(3, 7)), rng.choice([0, 2, 3])) for _ in range(800)], base)
    else:
        t1full, wrap2, t3small = TU("t1full"), TU("wrap2"), TU("t3small")
        add_types("t1full: atoms, containers, all 2-unions (exhaustive)", t1full, base)
        add_types("t1small x all ordered pairs of rewriters (exhaustive)", t1small, pairs)
        add_types("t3small 3-unions (exhaustive)", t3small, base)
        add_types("big unions 3..8 members, every member first (exhaustive)", big, base, rotations=True)
        add_types("big x pairs of rewriters (sampled)", rng.sample(big, 1500), pairs)
        add_types("wrap2 (exhaustive)", wrap2, base)
        add_types("wrap3 depth-3 (exhaustive)", wrap3, base)
        add_types("TypedDict types (exhaustive)", tds, base + pairs)
        add_vals("inferred from value pairs small1 (exhaustive) with witnesses",
                 [(list(p), k) for p in vpairs for k in (0, 3)], base)
        add_vals("inferred from wide/tiny2 singles with witnesses",
                 [([v], k) for v in wide + tiny2 for k in (0, 1, 2, 3, 10)], base)
        add_vals("inferred from random multisets size 3..9",
                 [(rng.sample(small1 + tiny2 + wide, rng.randint(3, 9)), rng.choice([0, 2, 3, 10])) for _ in range(30000)], base)
    return jobs, plan


def signature(rec, clause):
    """Narrow description of a violation (used only to match known findings)."""
    sig = {"clause": clause, "chain": rec["cname"]}
    bad = None
    for st in rec["steps"]:
        if st["err"] != "NONE":
            bad = st
            sig["err"] = st["err"]
            break
        if st["pre"] != st["post"] and bad is None:
            bad = st
    if bad is None and rec["err"] != "NONE":
        sig["err"] = rec["err"]
    if bad is not None:
        sig["step"] = bad["rw"]
        pre = bad["pre"]
        members = pre["u"] if pre["k"] == "union" else []
        if bad["err"] != "NONE":
            sig["first_member"] = None
        if bad["rw"] == "REC" and bad["err"] == "NONE":
            post_m = {canon(m) for m in (bad["post"]["u"] if bad["post"]["k"] == "union" else [bad["post"]])}
            dropped = [m for m in members if canon(m) not in post_m]
            sig["dropped_kinds"] = sorted({m["k"] for m in dropped})
            sig["same_kind_nonempty_sibling"] = all(
                any(o["k"] == m["k"] and not all(x["k"] == "any" for x in o["a"]) for o in members) for m in dropped)
        if bad["rw"].startswith("RLU") and bad["err"] != "NONE":
            sig["has_empty_tuple_member"] = any(m["k"] == "tuple" and not m["a"] for m in members)
        if bad["rw"] == "MSCB" and bad["err"] != "NONE":
            sig["has_non_class_member"] = any(m["k"] not in ("cls", "td", "any") for m in members)
        sig.pop("first_member", None)
        sig.pop("chain", None)  # the failing link identifies the violation, whatever chain it sits in
    return sig


def mc_run(tier, env_text):
    cfg = ("SPECIFICATION Spec\nCONSTANTS\n  MaxChain = %d\n  UName = \"%s\"\n  Dev_RECAnyNeighbour = FALSE\n"
           "  Dev_RLUEmptyTupleFirst = FALSE\n  Dev_RLUFirstMro = FALSE\n  Dev_MSCBGeneric = FALSE\nINVARIANT Inv_NoCrash\nINVARIANT Inv_NeverNarrows\n"
           "INVARIANT Inv_OnlyOnTrigger\nCHECK_DEADLOCK FALSE\n") % ((2, "t1small") if tier == "quick" else (3, "both"))
    res = tlc.run_tlc("MTRewriteMC", cfg_text=cfg, workers=16, timeout=7200, extra_files={"MTEnv.tla": env_text}, xmx="24g")
    tlc.check_ok(res, "MTRewriteMC")
    if res.invariant_violated:
        raise tlc.TLCFailure("MTRewriteMC: design-level invariant violated: %s\n%s" % (res.invariant_violated, res.out[-2000:]))
    return res


def trace_cfg():
    """The trace spec's I-layer follows the code as it is (model_deviations.json)."""
    devs = core.model_deviations(["Dev_RECAnyNeighbour", "Dev_RLUEmptyTupleFirst", "Dev_RLUFirstMro", "Dev_MSCBGeneric"])
    lines = ["SPECIFICATION Spec", "CONSTANTS"]
    lines += ["  %s = %s" % (k, "TRUE" if v else "FALSE") for k, v in sorted(devs.items())]
    lines.append("CHECK_DEADLOCK FALSE")
    return "\n".join(lines) + "\n"


def main(pid, tier, seed, replay=None):
    core.use_repo()
    envgen.load_fixture_classes()
    env_text = envgen.mtenv_text()
    run = core.Run(pid, tier, seed)
    if replay:
        with open(replay) as fh:
            blob = json.load(fh)
        jobs, plan, mc = [blob["case"]], [{"family": "replay", "types": 1}], None
    else:
        jobs, plan = gen_jobs(tier, seed, env_text)
        mc = mc_run(tier, env_text)
    records = run_jobs(jobs)
    env_text = envgen.mtenv_text()
    by_tid = {r["tid"]: r for r in records}
    job_by_tid = {j["tid"]: j for j in jobs}
    verdicts, states, trans, wall = tlc.validate_shards(
        "MTRewriteTrace", None, records, extra_files={"MTEnv.tla": env_text, "MTRewriteTrace.cfg": trace_cfg()})
    for v in verdicts:
        rec = by_tid[v["tid"]]
        if v.get("drift"):
            run.drift += 1
            if len(run.notes) < 40:
                run.notes.append({k: rec[k] for k in ("cname", "pre", "post", "err", "steps")})
        for clause in v.get("viol", []):
            job = dict(job_by_tid[rec["job"]])
            job["chains"] = [rec["cname"]]
            run.violation(signature(rec, clause), job)
    changed = {canon(r["pre"]) + "|" + r["cname"] for r in records if r["err"] != "NONE" or r["pre"] != r["post"]}
    ex = next((r for r in records if r["pre"] != r["post"] and r["err"] == "NONE"), records[0])
    cov = {
        "states": (mc.distinct if mc else 0) + states,
        "transitions": (mc.generated if mc else 0) + trans,
        "traces_validated_against_impl": len(records),
        "evaluations": len(records),
        "distinct_nontrivial": len(changed),
        "rule": "one trace = one (type, rewriter or chain) run through the real rewriter objects, link by link; types come "
                "from TLC-exported type universes (with every member of large unions rotated to the front) and from types "
                "really inferred from value sets (which then serve as witnesses); non-trivial = the rewrite changed the type "
                "or raised; distinct by (type, chain)",
        "samples": [core.trim({k: ex[k] for k in ("cname", "pre", "post", "err")}, 1500)],
        "plan": plan,
        "mc": None if mc is None else {"spec": "MTRewriteMC, deviations off (design): NoCrash, NeverNarrows, OnlyOnTrigger invariants",
                                       "distinct_states": mc.distinct, "states_generated": mc.generated, "wall_s": round(mc.wall, 1)},
        "trace_validation": {"spec": "MTRewriteTrace", "tlc_states": states, "wall_s": round(wall, 1)},
        "exhaustive": False,
        "drift_samples": [core.trim(n, 3000) for n in run.notes[:10]],
    }
    return run.finish(cov)
