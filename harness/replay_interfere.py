"""C03: tracing never changes what the traced program does.

(a) hooks: every (function kind x object role x hookable protocol x k) cell is run untraced and
    traced; tripwire hooks journal whether a monkeytype frame was on the stack.
(b) lifecycle: every behaviour of the MTInterfere model (pre-installed profiler, per-call faults in
    log() / inspection, flush() failing, exit by return or exception) is replayed on the real
    trace_calls.
TLC validates the records against the P-layer MTInterfereTrace."""
import collections
import concurrent.futures
import io
import json
import os
import sys

from . import absmodel, core, tlc

WORK_SRC = '''"""GENERATED workload for C03 (traced)"""
from mtfx.tripwires import Holder

shadowed = None          # a module global named like the method W.shadowed; the harness puts a tripwire here
other_global = None      # an unrelated module global; the harness puts a tripwire here


def f_arg(x):
    return 1


def f_ret():
    return Holder.obj


def g_yield():
    yield Holder.obj


class W:
    def m_arg(self, x):
        return 2

    @staticmethod
    def s_arg(x):
        return 3

    def shadowed(self, x):
        return 4

    @staticmethod
    def __sp(x):             # a private name: the attribute is _W__sp, the code object is called __sp
        return 7

    @staticmethod
    def call_sp(x):
        return W.__sp(x)


def f_local(x):
    loc = Holder.make_local()      # a local whose finalizer journals: it must run when the call returns
    return 6


def hidden(x):
    return 5


_HID = {"h": hidden}
del hidden


def caller_with_local(tw, x):
    loc = tw
    return _HID["h"](x)


def snapshot_prog():
    """Takes a snapshot of its locals, then defines and calls a nested function (resolvable only through the
    locals of calling frames): what the program sees in its snapshot must not depend on tracing."""
    snap = locals()

    def inner():
        return 1
    inner()
    return sorted(snap)


def rng_prog(n):
    """Uses the interpreter-wide random stream between traced calls."""
    import random
    random.seed(20240229)
    out = []
    for i in range(n):
        f_arg(i)
        out.append(random.random())
    return out


def gc_prog(n):
    """Functions created at run time and dropped: their captured objects must be finalised when the program lets go."""
    import gc
    from mtfx.tripwires import FINALIZED, Holder
    n0 = len(FINALIZED)
    out = []
    for i in range(n):
        captured = Holder.make_local()

        def handler(x, _c=captured):
            return x
        handler(i)
        del handler, captured
        gc.collect()
        out.append(len(FINALIZED) - n0)
    return out
'''

KINDS = ["module_function", "instance_method", "static_method", "unresolvable", "private_static_method"]
ROLES = ["arg", "ret", "yield", "elem_list", "elem_tuple", "elem_dict_value", "elem_dict_key", "elem_set",
         "elem_defaultdict", "global_same_name", "global_other", "caller_local"]
_ENV = {}


def _setup():
    if _ENV:
        return _ENV
    core.use_repo()
    absmodel.ensure_fixture_path()
    d = tlc.scratch_dir("mtverif_c03_")
    with open(os.path.join(d, "mtx_work.py"), "w") as fh:
        fh.write(WORK_SRC)
    sys.path.insert(0, d)
    import monkeytype
    import mtx_work as M
    from mtfx import tripwires as T
    T.MT_DIR[0] = os.path.dirname(os.path.abspath(monkeytype.__file__)) + os.sep
    def default_filter():
        import monkeytype.config as cfg
        return cfg.default_code_filter
    _ENV.update(dir=d, M=M, T=T, path=M.__file__, default_filter=default_filter)
    return _ENV


class Logger:
    def __init__(self, fail_at=(), flush_fails=False):
        self.n, self.kept, self.flushes = 0, 0, 0
        self.fail_at, self.flush_fails = set(fail_at), flush_fails

    def log(self, trace):
        self.n += 1
        if self.n in self.fail_at:
            raise RuntimeError("log failed")
        self.kept += 1

    def flush(self):
        self.flushes += 1
        if self.flush_fails:
            raise RuntimeError("flush failed")


def _call_kind(M, kind, x):
    if kind == "module_function":
        return M.f_arg(x)
    if kind == "instance_method":
        return M.W().m_arg(x)
    if kind == "static_method":
        return M.W.s_arg(x)
    if kind == "private_static_method":
        return M.W.call_sp(x)
    return M._HID["h"](x)


def hook_workload(sc, traced):
    """Run one (kind, role, proto, k) cell; returns (observations, journal, lifecycle facts)."""
    env = _setup()
    M, T = env["M"], env["T"]
    import monkeytype.tracing as mtt
    T.JOURNAL.clear()
    T.ROLE[0] = sc["role"]
    # the tripwire is never bound to a local of a harness frame (callable locals of calling frames are
    # themselves an inspected role: "caller_local")
    box = [T.MAKERS[sc["proto"]]()]
    role, kind = sc["role"], sc["kind"]
    obs = []
    M.shadowed = None
    M.other_global = None
    T.Holder.obj = None

    def body():
        if role == "arg":
            obs.append(repr(_call_kind(M, kind, box[0]) == 0))
        elif role == "ret":
            T.Holder.obj = box[0]
            obs.append(M.f_ret() is box[0])
        elif role == "yield":
            T.Holder.obj = box[0]
            obs.append([v is box[0] for v in M.g_yield()])
        elif role.startswith("elem_"):
            c = {"elem_list": lambda: [box[0]], "elem_tuple": lambda: (box[0], 1), "elem_dict_value": lambda: {"k": box[0]},
                 "elem_dict_key": lambda: {"alpha": 0, box[0]: 1, "omega": "z"}, "elem_set": lambda: {box[0], "omega"},
                 "elem_defaultdict": lambda: collections.defaultdict(int, {"k": box[0]})}[role]()
            obs.append(_call_kind(M, kind, c))
        elif role == "global_same_name":
            M.shadowed = box[0]
            obs.append(M.W().shadowed(1))
        elif role == "global_other":
            M.other_global = box[0]
            obs.append(_call_kind(M, kind, 1))
        elif role == "caller_local":
            obs.append(M.caller_with_local(box[0], 1))

    logger = Logger(fail_at=range(1, 50) if sc.get("log_fails") else ())
    escaped, before = "NONE", sys.getprofile()
    path = env["path"]
    try:
        if traced:
            with mtt.trace_calls(logger, sc["k"], lambda code: code.co_filename == path):
                body()
        else:
            body()
    except TypeError as e:      # unhashable tripwire as dict key / set member: the program's own failure
        obs.append("TypeError")
    except Exception as e:
        escaped = type(e).__name__
    restored = sys.getprofile() is before
    journal = list(T.JOURNAL)
    M.shadowed = None
    M.other_global = None
    # program-visible = what the program computed + hooks that fired while no tracer frame was on the stack
    vis = [json.dumps(o, default=str) for o in obs] + ["%s:%s" % (r, p) for r, p, ins in journal if not ins]
    return vis, journal, {"restored": restored, "flushes": logger.flushes if traced else 1, "escaped": escaped}


def run_hook_scenario(sc):
    visU, _, _ = hook_workload(sc, False)
    visT, journal, life = hook_workload(sc, True)
    return {"tid": sc["tid"], "kind": "hooks",
            "hooks": [{"role": r, "proto": p, "inside": bool(ins)} for r, p, ins in journal],
            "obsU": visU, "obsT": visT, "prevOK": life["restored"], "flushes": life["flushes"], "escaped": life["escaped"]}


def run_life_scenario(sc):
    """sc = {tid, hist, flushFails, prev}: the lifecycle behaviour on the real trace_calls."""
    env = _setup()
    M, T = env["M"], env["T"]
    import monkeytype.tracing as mtt
    calls = [h["x"] for h in sc["hist"] if h["op"] == "Call"]
    exits = [h["x"] for h in sc["hist"] if h["op"] == "Exit"]
    how = exits[0] if exits else "normal"
    entered = any(h["op"] == "Enter" for h in sc["hist"])

    class ProgError(Exception):
        pass

    def other_profiler(frame, event, arg):
        return None

    def prog_profiler(frame, event, arg):
        return None

    def program(obs):
        j = -1
        for h in sc["hist"]:
            if h["op"] == "SetProfile":      # the program replaces the profiler inside the block
                sys.setprofile(None if h["x"] == "none" else prog_profiler)
                continue
            if h["op"] != "Call":
                continue
            j += 1
            f = h["x"]
            x = T.TRaisingClass() if f == "inspect" else j
            T.ROLE[0] = "arg"
            obs.append(M.f_arg(x))
            n0 = len(T.FINALIZED)
            M.f_local(j)
            obs.append("finalized:%d" % (len(T.FINALIZED) - n0))     # the callee's local is released when it returns
        if how == "exception":
            raise ProgError()
        if how == "sysexit":
            raise SystemExit(3)

    def one(traced):
        T.JOURNAL.clear()
        obs, seen, escaped = [], "none", "NONE"
        # which log() calls fail: each model call is two traced calls (f_arg, f_local); a call whose inspection
        # raised never reaches log() for f_arg
        idx, k = set(), 0
        for f in calls:
            if f != "inspect":
                k += 1
                if f == "log":
                    idx.add(k)
            k += 1
            if f == "log":
                idx.add(k)
        logger = Logger(idx, sc["flushFails"])
        sys.setprofile(other_profiler if sc.get("prev0", sc.get("prev")) == "other" else None)
        path = env["path"]
        cm = None
        for h in sc["hist"]:
            # the context manager object is made first; the program may change the profiler before it enters the block
            if h["op"] == "Create" and traced and entered:
                cm = mtt.trace_calls(logger, 0, lambda code: code.co_filename == path)
            elif h["op"] == "SetBefore":
                sys.setprofile(other_profiler if h["x"] == "other" else None)
            elif h["op"] == "Enter":
                break
        prev = sys.getprofile()          # the profiler in place when the block is entered
        try:
            try:
                if traced and entered:
                    with (cm if cm is not None else mtt.trace_calls(logger, 0, lambda code: code.co_filename == path)):
                        program(obs)
                else:
                    program(obs)
            except (ProgError, SystemExit):
                seen = "prog"
            except Exception as e:
                seen, escaped = "other", type(e).__name__
            restored = sys.getprofile() is prev
        finally:
            sys.setprofile(None)
        vis = [json.dumps(o) for o in obs] + ["exc:" + seen]
        return vis, {"restored": restored, "flushes": logger.flushes if (traced and entered) else 1, "escaped": escaped,
                     "journal": list(T.JOURNAL)}

    visU, _ = one(False)
    visT, life = one(True)
    return {"tid": sc["tid"], "kind": "life",
            "hooks": [{"role": r, "proto": p, "inside": bool(ins)} for r, p, ins in life["journal"] if "raises" not in p],
            "obsU": visU, "obsT": visT, "prevOK": life["restored"], "flushes": life["flushes"], "escaped": life["escaped"]}


def run_ambient_scenario(sc):
    """Ambient interpreter state the program can observe: the global random stream (under sampling), a locals()
    snapshot, the lifetime of functions created at run time.  sc = {tid, ambient, rate}."""
    env = _setup()
    M, T = env["M"], env["T"]
    import monkeytype.tracing as mtt
    path = env["path"]

    def one(traced):
        T.JOURNAL.clear()
        T.ROLE[0] = "arg"
        logger = Logger()
        before, escaped, obs = sys.getprofile(), "NONE", []

        def body():
            if sc["ambient"] == "rng":
                obs.append(M.rng_prog(8))
            elif sc["ambient"] == "locals_snapshot":
                obs.append(M.snapshot_prog())
            elif sc["ambient"] == "closure_lifetime":
                obs.append(M.gc_prog(3))
            elif sc["ambient"] == "odd_file_names":
                # code the program compiles itself, under file names a filter may not expect (the DEFAULT filter is in force)
                for fn in ("", " ", ".", "<string>", "<>", "relative.py", os.path.join("no", "such", "dir", "x.py"), "trailing" + os.sep,
                           "a\nb.py", "~", os.sep, "\u00e9t\u00e9.py", "x" * 300 + ".py"):
                    ns = {}
                    exec(compile("def q(x):\n    return [x, x]\nr = q(%d)\n" % len(fn), fn, "exec"), ns)
                    obs.append(ns["r"])
        try:
            if traced:
                flt = (lambda code: code.co_filename == path) if sc["ambient"] != "odd_file_names" else env["default_filter"]()
                with mtt.trace_calls(logger, 0, flt, sc["rate"] or None):
                    body()
            else:
                body()
        except Exception as e:
            escaped = type(e).__name__
        return [json.dumps(o) for o in obs], {"restored": sys.getprofile() is before, "flushes": logger.flushes if traced else 1,
                                              "escaped": escaped}
    visU, _ = one(False)
    visT, life = one(True)
    return {"tid": sc["tid"], "kind": "ambient", "hooks": [], "obsU": visU, "obsT": visT, "prevOK": life["restored"],
            "flushes": life["flushes"], "escaped": life["escaped"]}


def run_stock_logger_scenario(sc):
    """The stock CallTraceStoreLogger over a counting store, many traced calls in one block: the store must be written
    exactly once, when the block ends (never while the program runs)."""
    env = _setup()
    M, T = env["M"], env["T"]
    import monkeytype.tracing as mtt
    from monkeytype.db.base import CallTraceStore, CallTraceStoreLogger
    path = env["path"]
    T.ROLE[0] = "arg"

    class CountingStore(CallTraceStore):
        def __init__(self):
            self.adds, self.inside, self.rows, self.in_block = 0, 0, 0, False

        def add(self, traces):
            traces = list(traces)
            self.adds += 1
            self.rows += len(traces)
            if self.in_block:
                self.inside += 1

        def filter(self, module, qualname_prefix=None, limit=2000):
            return []

        @classmethod
        def make_store(cls, connection_string):
            return cls()

        def list_modules(self):
            return []
    store = CountingStore()
    logger = CallTraceStoreLogger(store)
    before, escaped = sys.getprofile(), "NONE"
    n = sc["calls"]
    try:
        with mtt.trace_calls(logger, 0, lambda code: code.co_filename == path):
            store.in_block = True
            for i in range(n):
                M.f_arg(i)
            store.in_block = False
    except Exception as e:
        escaped = type(e).__name__
    obs = ["rows:%d" % store.rows, "writes_while_running:%d" % store.inside]
    return {"tid": sc["tid"], "kind": "stock", "hooks": [], "obsU": ["rows:%d" % n, "writes_while_running:0"], "obsT": obs,
            "prevOK": sys.getprofile() is before, "flushes": store.adds, "escaped": escaped}


RUNCLI_PROG = '''import os, pickle, sys


class Point:
    def __init__(self, x):
        self.x = x


def work(n):
    return [Point(i).x for i in range(n)]


if __name__ == "__main__":
    import __main__
    out = []
    out.append("argv0:" + os.path.basename(sys.argv[0]))
    out.append("args:" + ",".join(sys.argv[1:]))
    out.append("main_is_me:" + str(getattr(__main__, "Point", None) is Point))
    try:
        out.append("pickle:" + str(pickle.loads(pickle.dumps(Point(3))).x))
    except Exception as e:
        out.append("pickle:" + type(e).__name__)
    out.append("work:" + str(sum(work(4))))
    out.append("name:" + __name__)
    out.append("path0_is_here:" + str(os.path.realpath(sys.path[0] or ".") == os.path.realpath(os.path.dirname(os.path.abspath(__file__)))))
    print("|".join(out))
    sys.exit(3 if "fail" in sys.argv else 0)
'''


def run_cli_scenario(sc):
    """`python prog.py args` / `python -m prog args` against `monkeytype run prog.py args` / `monkeytype run -m prog args`: the
    program (which looks at sys.argv, __main__, pickling of its own classes, its exit status) must not be able to tell."""
    import subprocess
    d = tlc.scratch_dir("mtverif_runcli_")
    try:
        with open(os.path.join(d, "prog.py"), "w") as fh:
            fh.write(RUNCLI_PROG)
        env = dict(os.environ, PYTHONPATH=core.REPO, MT_DB_PATH=os.path.join(d, "t.sqlite3"))
        env.pop("MONKEYTYPE_TRACE_MODULES", None)
        tail = ["-m", "prog"] if sc["mode"] == "module" else ["prog.py"]
        args = list(sc["args"])
        pu = subprocess.run([sys.executable] + tail + args, cwd=d, env=env, capture_output=True, text=True, timeout=120)
        pt = subprocess.run([sys.executable, "-m", "monkeytype", "run"] + tail + args, cwd=d, env=env, capture_output=True, text=True, timeout=120)
        obsU = [pu.stdout.strip(), "rc:%d" % pu.returncode]
        obsT = [pt.stdout.strip(), "rc:%d" % pt.returncode]
    finally:
        import shutil
        shutil.rmtree(d, ignore_errors=True)
    return {"tid": sc["tid"], "kind": "runcli", "hooks": [], "obsU": obsU, "obsT": obsT, "prevOK": True, "flushes": 1, "escaped": "NONE"}


def _run_chunk(chunk):
    _setup()
    import logging
    # Python's default configuration: records of level WARNING and above ARE formatted (by the "last resort"
    # handler, to stderr).  Keep that - formatting a record is where a %r of a program object would run user
    # code - but send the text to the null device.
    logging.lastResort = logging.StreamHandler(open(os.devnull, "w"))
    logging.lastResort.setLevel(logging.WARNING)
    out = []
    for sc in chunk:
        out.append(run_hook_scenario(sc) if sc["type"] == "hooks" else run_ambient_scenario(sc) if sc["type"] == "ambient"
                   else run_stock_logger_scenario(sc) if sc["type"] == "stock" else run_cli_scenario(sc) if sc["type"] == "runcli"
                   else run_life_scenario(sc))
    return out


def run_all(scs, procs=8):
    chunks = [scs[i::procs] for i in range(procs)]
    out = []
    with concurrent.futures.ProcessPoolExecutor(max_workers=procs) as ex:
        for recs in ex.map(_run_chunk, [c for c in chunks if c]):
            out.extend(recs)
    return out


def main(pid, tier, seed, replay=None):
    core.use_repo()
    run = core.Run(pid, tier, seed)
    devs = core.model_deviations(["Dev_FlushEscapes", "Dev_PrevAtCreation"])
    plan = []
    if replay:
        with open(replay) as fh:
            scs = [dict(json.load(fh)["case"], tid=1)]
        mc = None
    else:
        cfg = "SPECIFICATION Spec\nCONSTANTS\n  MaxCalls = %d\n  Dev_FlushEscapes = %s\n  Dev_PrevAtCreation = FALSE\n%sCHECK_DEADLOCK FALSE\n"
        inv = "INVARIANT Contained\nINVARIANT Restored\nINVARIANT FlushedOnce\nINVARIANT SameOutcome\n"
        maxc = 3 if tier == "quick" else 5
        mc = tlc.run_tlc("MTInterfereMC", cfg_text=cfg % (maxc, "FALSE", inv), workers=8, timeout=1200)
        tlc.check_ok(mc, "MTInterfereMC design")
        if mc.invariant_violated:
            raise tlc.TLCFailure("MTInterfereMC design violated")
        ex = tlc.run_tlc("MTInterfereMC", cfg_text=cfg % (maxc, "TRUE" if devs["Dev_FlushEscapes"] else "FALSE", "INVARIANT Emit\n"),
                         workers=8, timeout=1200)
        tlc.check_ok(ex, "MTInterfereMC export")
        life = ex.printed("H")
        scs = []
        from mtfx import tripwires  # noqa: F401  (names only)
        protos = ["getattribute", "getattr", "class_prop", "descriptor", "lazy_property", "list_sub", "dict_sub", "set_sub",
                  "tuple_sub", "defaultdict_sub", "getattr_raises", "hash_eq", "bool", "repr", "meta_class", "meta_instance", "str_sub_key"]
        for kind in KINDS:
            for role in ROLES:
                if role in ("ret", "yield", "global_same_name", "caller_local") and kind != "module_function":
                    continue
                for proto in protos:
                    for k in (0, 3):
                        scs.append({"type": "hooks", "kind": kind, "role": role, "proto": proto, "k": k})
                    if role in ("arg", "ret", "yield", "elem_list"):     # the same cell while every log() call fails
                        scs.append({"type": "hooks", "kind": kind, "role": role, "proto": proto, "k": 0, "log_fails": True})
        plan.append({"family": "hooks: function kind x object role x protocol x k (exhaustive product)", "scenarios": len(scs)})
        n0 = len(scs)
        for b in life:
            scs.append({"type": "life", "hist": b["hist"], "flushFails": b["flushFails"], "prev0": b["prev0"]})
        plan.append({"family": "lifecycle: every behaviour of MTInterfere (pre-installed profiler x per-call log/inspection "
                               "faults, <= %d calls x flush fault x exit by return/exception)" % maxc, "scenarios": len(scs) - n0})
        n0 = len(scs)
        for amb in ("rng", "locals_snapshot", "closure_lifetime", "odd_file_names"):
            for rate in (0, 1, 2, 5, 1000):
                scs.append({"type": "ambient", "ambient": amb, "rate": rate})
        plan.append({"family": "ambient state: global random stream / locals() snapshot / lifetime of run-time functions x "
                               "sampling rate", "scenarios": len(scs) - n0})
        n0 = len(scs)
        for calls in ((1, 1200, 6000, 25000) if tier == "quick" else (1, 1200, 6000, 25000, 70000, 300000)):
            scs.append({"type": "stock", "calls": calls})
        plan.append({"family": "the stock CallTraceStoreLogger over a counting store, 1 .. many traced calls in one block: one "
                               "write, at the end", "scenarios": len(scs) - n0})
        n0 = len(scs)
        for mode in ("script", "module"):
            for args in ([], ["a", "--b"], ["fail"]):
                scs.append({"type": "runcli", "mode": mode, "args": args})
        plan.append({"family": "`monkeytype run [-m] prog args` against `python [-m] prog args`: argv, __main__, pickling of the "
                               "program's own classes, sys.path[0], exit status", "scenarios": len(scs) - n0})
        for i, s in enumerate(scs):
            s["tid"] = i + 1
    records = run_all(scs)
    by_tid = {r["tid"]: r for r in records}
    sc_by_tid = {s["tid"]: s for s in scs}
    slim = [{k: r[k] for k in ("tid", "hooks", "obsU", "obsT", "prevOK", "flushes", "escaped")} for r in records]
    verdicts, states, trans, wall = tlc.validate_shards("MTInterfereTrace", "MTInferTrace.cfg", slim, min_per_shard=100)
    for v in verdicts:
        rec, sc = by_tid[v["tid"]], sc_by_tid[v["tid"]]
        for clause in v.get("viol", []):
            if clause == "NoUserCode":
                for cell in sorted({(h["role"], h["proto"]) for h in rec["hooks"] if h["inside"]}):
                    value_role = cell[0] in ("arg", "ret", "yield") or cell[0].startswith("elem_")
                    cause = ("metaclass_hook_of_a_value_class" if cell[1].startswith("meta.") and value_role else
                             "getattr_on_lookup_candidate" if cell[0] in ("global_same_name", "caller_local")
                             or (sc.get("kind") in ("unresolvable", "private_static_method") and cell[0] == "arg"
                                 and sc.get("proto") in ("getattribute", "getattr", "getattr_raises", "descriptor", "lazy_property", "meta_class"))
                             else "other")
                    vio = {"clause": clause, "role": cell[0], "hook": cell[1], "cause": cause}
                    if sc["type"] == "hooks" and sc["role"] in ("global_other",):
                        vio["function_kind"] = sc["kind"]
                    run.violation(vio, {k: v2 for k, v2 in sc.items() if k != "tid"})
            elif sc["type"] == "runcli":
                run.violation({"clause": clause, "run_cli": sc["mode"]}, {k: v2 for k, v2 in sc.items() if k != "tid"})
            elif sc["type"] == "stock":
                run.violation({"clause": clause, "stock_logger_calls": sc["calls"]}, {k: v2 for k, v2 in sc.items() if k != "tid"})
            elif sc["type"] == "ambient":
                run.violation({"clause": clause, "ambient": sc["ambient"], "sampled": sc["rate"] > 1},
                              {k: v2 for k, v2 in sc.items() if k != "tid"})
            elif sc["type"] == "life":
                run.violation({"clause": clause, "flush_fails": sc["flushFails"], "escaped": rec["escaped"]},
                              {k: v2 for k, v2 in sc.items() if k != "tid"})
            else:
                run.violation({"clause": clause, "role": sc["role"], "proto": sc["proto"]}, {k: v2 for k, v2 in sc.items() if k != "tid"})
    touched = {(r["tid"]) for r in records if r["hooks"]}
    ex1 = next((r for r in records if r["hooks"]), records[0])
    cov = {
        "states": (mc.distinct if mc else 0) + states,
        "transitions": (mc.generated if mc else 0) + trans,
        "traces_validated_against_impl": len(records),
        "evaluations": 2 * len(records),
        "distinct_nontrivial": len(touched) + sum(1 for r in records if r["kind"] == "life"),
        "rule": "every scenario is run twice in one interpreter (untraced, traced) with fresh tripwire objects; hooks journal "
                "(role, hook, monkeytype frame on the stack?); non-trivial = some user hook fired during the traced run, or a "
                "lifecycle scenario; all scenarios are distinct cells of the stated products",
        "samples": [core.trim(ex1, 1500)],
        "plan": plan,
        "mc": None if mc is None else {"spec": "MTInterfereMC, Dev_FlushEscapes off: Contained, Restored, FlushedOnce, SameOutcome",
                                       "distinct_states": mc.distinct, "states_generated": mc.generated},
        "trace_validation": {"spec": "MTInterfereTrace", "tlc_states": states, "wall_s": round(wall, 1)},
        "exhaustive": True,
    }
    return run.finish(cov)
