"""TLC-exported universes (values, types, shapes), cached by spec hash under /verif/.cache."""
import hashlib
import json
import os

from . import tlc

CACHE = os.path.join(tlc.VERIF, ".cache")


def _spec_hash(mods):
    h = hashlib.sha1()
    for m in sorted(mods):
        with open(os.path.join(tlc.SPECS, m + ".tla"), "rb") as fh:
            h.update(fh.read())
    return h.hexdigest()[:16]


def export(root, uname, deps, env_text, timeout=1200):
    """Run export module `root` (which JsonSerializes its universe to IOEnv.OUT_FILE) for UNAME."""
    os.makedirs(CACHE, exist_ok=True)
    key = "%s_%s_%s_%s.json" % (root, uname, _spec_hash(list(deps) + [root]),
                                hashlib.sha1(env_text.encode()).hexdigest()[:8])
    path = os.path.join(CACHE, key)
    if not os.path.exists(path):
        tmp = path + ".tmp%d" % os.getpid()
        res = tlc.run_tlc(root, workers=1, timeout=timeout, env={"UNAME": uname, "OUT_FILE": tmp},
                          extra_files={"MTEnv.tla": env_text}, xmx="6g")
        if res.errors or not os.path.exists(tmp):
            raise tlc.TLCFailure("universe export %s/%s failed\n%s" % (root, uname, res.out[-2000:]))
        os.replace(tmp, path)
    with open(path) as fh:
        return json.load(fh)
