"""C02 / C18 / C17(b): TLC behaviours of MTTracer replayed into the real CallTracer through scripted
fixtures; the ground-truth event log is validated by TLC against the P-layer MTTracerTrace."""
import concurrent.futures
import json
import os
import random
import shutil
import sys

from . import absmodel, core, envgen, gen_traced, tlc

TOK = {"int": 1, "none": None}


# ------------------------------------------------------------------------------ behaviours from TLC
def mc_cfg(rate=0, depth=8, frames=3, throw=True, devs=None, invariants=True, emit=False, view=True, alphabet="MC", delegate=True):
    devs = devs or {}
    names = ["Dev_ReturnConst", "Dev_AwaitIsYield", "Dev_ThrowIsYield", "Dev_Resample", "Dev_AgenWrapped"]
    lines = ["SPECIFICATION Spec", "CONSTANTS", "  Funcs <- Funcs" + alphabet, "  Kind <- Kind" + alphabet,
             "  Wanted <- Wanted" + alphabet, "  Vals <- Vals" + alphabet, "  MaxFrames = %d" % frames, "  MaxDepth = %d" % depth, "  Rate = %d" % rate,
             "  AllowThrow = %s" % ("TRUE" if throw else "FALSE"), "  AllowDrop = %s" % ("TRUE" if throw else "FALSE"),
             "  AllowDelegate = %s" % ("TRUE" if delegate else "FALSE")]
    lines += ["  %s = %s" % (n, "TRUE" if devs.get(n) else "FALSE") for n in names]
    lines.append("CONSTRAINT DepthOK")
    if view:
        lines.append("VIEW View")
    if invariants:
        lines += ["INVARIANT ExactlyOnceInOrder", "INVARIANT SampledSubset", "INVARIANT NoResidue"]
    if emit:
        lines.append("INVARIANT Emit")
    lines.append("CHECK_DEADLOCK FALSE")
    return "\n".join(lines) + "\n"


def tlc_behaviours(rate, depth, frames, devs, simulate=None, seed=0, throw=True, timeout=1800, alphabet="MC"):
    cfg = mc_cfg(rate, depth, frames, throw, devs, invariants=False, emit=True, view=False, alphabet=alphabet)
    res = tlc.run_tlc("MTTracerMC", cfg_text=cfg, workers=(1 if simulate else 16), simulate=simulate,
                      depth=(depth + 1 if simulate else None), seed=seed, timeout=timeout, xmx="16g")
    tlc.check_ok(res, "MTTracerMC export")
    return res.printed("H"), res


# ------------------------------------------------------------------------------ one scenario, real code
_ENV = {}


def _setup_modules():
    """Write and import the generated fixture modules once per worker process."""
    if _ENV:
        return _ENV
    core.use_repo()
    absmodel.ensure_fixture_path()
    d = tlc.scratch_dir("mtverif_fx_")
    with open(os.path.join(d, "mtx_traced.py"), "w") as fh:
        fh.write(gen_traced.traced_source())
    with open(os.path.join(d, "mtx_unwanted.py"), "w") as fh:
        fh.write(gen_traced.unwanted_source())
    # a byte-identical twin of the traced module (a vendored copy, a generated sibling): its code objects compare
    # EQUAL to the original's, yet its functions are different functions of a different module
    with open(os.path.join(d, "mtx_twin.py"), "w") as fh:
        fh.write(gen_traced.traced_source())
    sys.path.insert(0, d)
    import mtx_traced as M
    import mtx_unwanted as MU
    import mtx_twin as MT
    # the SAME FILE loaded a second time as another module (a module reachable under two names, a plugin loader, a reload):
    # its functions share file name, line numbers and names with the original's - only the objects differ
    import importlib.util
    spec = importlib.util.spec_from_file_location("mtx_again", M.__file__)
    MA = importlib.util.module_from_spec(spec)
    sys.modules["mtx_again"] = MA
    spec.loader.exec_module(MA)
    ns = {"M": M, "MU": MU, "MT": MT, "MA": MA, "OBJ": M.Kls(), "SUB": M.Sub(), "TOBJ": MT.Kls(), "AOBJ": MA.Kls()}
    targets, reg = {}, {}
    for model_f, lst in gen_traced.TARGETS.items():
        for t in lst:
            sigf = eval(t["sig"], ns)
            canon_name = sigf.__qualname__ if sigf.__module__ not in ("mtx_twin", "mtx_again") else sigf.__module__ + ":" + sigf.__qualname__
            t2 = dict(t, model=model_f, wanted=(model_f != "U"), canon=canon_name,
                      maker_f=eval(t["maker"], ns), sigfunc=(lambda f=sigf: f),
                      selfargs_f=(lambda e=t["selfargs"]: eval(e, ns)))
            targets[t["name"]] = t2
            reg[id(sigf.__code__)] = (canon_name, model_f != "U", model_f)     # by identity: twins have equal code objects
    _ENV.update(dir=d, M=M, MU=MU, MT=MT, targets=targets, reg=reg, traced_path=M.__file__, twin_path=MT.__file__)
    return _ENV


class LoggerFailure(Exception):
    pass


class RecordingLogger:
    def __init__(self, S, reg, fail_every=0):
        self.S, self.reg, self.flushes = S, reg, 0
        self.fail_every, self.nlog = fail_every, 0     # a logger whose log() raises AFTER taking every n-th trace (a full disk, a lost connection)

    def log(self, trace):
        self.nlog += 1
        try:
            self._log(trace)
        finally:
            if self.fail_every and self.nlog % self.fail_every == 0:
                raise LoggerFailure("scripted failure of CallTraceLogger.log")

    def _log(self, trace):
        code = getattr(trace.func, "__code__", None)
        name, wanted, model = self.reg.get(id(code), ("?" + getattr(trace.func, "__qualname__", "?"), False, "?"))
        self.S.emit(ev="Log", f=name, known=wanted, model=model,
                    args=[{"n": n, "ty": absmodel.abs_type(t)} for n, t in trace.arg_types.items()],
                    ret=absmodel.ABSENT if trace.return_type is None else absmodel.abs_type(trace.return_type),
                    ys=absmodel.ABSENT if trace.yield_type is None else absmodel.abs_type(trace.yield_type))

    def flush(self):
        self.flushes += 1


def build_actions(hist, rng, env, rich=None, admit=None, force=None, twin_rejected=False):
    """Model history -> concrete script actions (real targets, real values); force: frame id -> target name."""
    acts, chosen = [], {}

    pool, pending, held = [], [], {}      # held: id(container) -> frame ids that received it as an argument and have not returned

    def retyped(x):
        """Another value of ANOTHER class (what an in-place update of a slot may put there)."""
        return "s" if isinstance(x, (int, float)) and not isinstance(x, bool) else 1 if isinstance(x, str) else 1.5 if x is None else None

    def val(tok):
        if rich is not None and tok == "int":
            free = [o for o in pool if not held.get(id(o))]
            if free and rng.random() < 0.3:
                # the SAME container object as in an earlier action, its slots re-typed in place since (same length).  Never an
                # object that is an argument of a frame still alive (a generator created but not yet entered reads its
                # parameters at first entry: "when the call started" would be ambiguous)
                o = rng.choice(free)
                try:
                    if isinstance(o, list):
                        content = [retyped(x) for x in o]
                    elif isinstance(o, dict):
                        content = {k: retyped(v) for k, v in o.items()}
                    else:
                        content = {("k%d" % i) if not isinstance(x, str) else i for i, x in enumerate(o)}
                    if len(content) == len(o):
                        pending.append((o, content))
                        return o
                except TypeError:
                    pass
            v = absmodel.real_value(rng.choice(rich))
            if type(v) in (list, dict, set) and len(v) > 0:
                pool.append(v)
            return v
        return TOK[tok]

    def with_pre(act):
        if pending:
            act["pre"] = pending.pop()
            del pending[:]
        return act

    for h in hist:
        op = h["op"]
        if op in ("Call", "Create"):
            t = rng.choice([x for x in env["targets"].values() if x["model"] == h["f"]])
            if force and str(h["id"]) in force:
                t = env["targets"][force[str(h["id"])]]
            chosen[h["id"]] = t
            v = val(h["v"])
            args, kwargs = [v], {}
            if t.get("kw"):
                kwargs = {t["kw"][0]: val("int")}
            if t.get("kwonly"):
                args, kwargs = [], {t["kwonly"]: v}
            if t.get("extra_pos"):
                args += [val("int")] * t["extra_pos"]
                kwargs = {k: val("none") for k in t.get("extra_kw", [])}
            if t.get("noargs"):
                args = []
            kind = {"F": "plain", "U": "plain", "G": "gen", "C": "coro", "A": "agen"}[h["f"]]
            wanted = t["wanted"] and (admit is None or t["sigfunc"]().__code__.co_qualname in admit)
            wanted = wanted and not (twin_rejected and t["name"].startswith("twin "))
            for x in list(args) + list(kwargs.values()):
                if type(x) in (list, dict, set):
                    held.setdefault(id(x), set()).add(h["id"])
            acts.append(with_pre({"op": op, "f": t["canon"], "kind": kind, "wanted": wanted, "target": t["name"],
                                  "args": args, "kwargs": kwargs, "sigfunc": t["sigfunc"], "selfargs": t["selfargs_f"],
                                  "catch": h["catch"], "draw": h["draw"], "id": h["id"]}))
        elif op in ("Resume", "Throw", "Drop", "Delegate"):
            acts.append({"op": op, "id": h["id"], "catch": h["catch"], "draw": h["draw"]})
        elif op == "Return":
            acts.append(with_pre({"op": op, "id": h["id"], "how": h["f"], "val": val(h["v"])}))
            for fr in held.values():       # (released only by the frame's own Return: conservative)
                fr.discard(h["id"])
        elif op in ("Yield", "Rebind"):
            acts.append(with_pre({"op": op, "id": h["id"], "val": val(h["v"])}))
        elif op in ("Await", "Raise"):
            acts.append({"op": op, "id": h["id"]})
        else:
            raise ValueError(op)
    return acts, chosen


def residue_count(tracer, S):
    """Finished fixture frames the tracer still holds on to.  The tracer's attributes are searched generically
    (any dict / set / list / tuple attribute, keys and values, two levels deep) so that renaming or restructuring
    CallTracer.traces does not blind the check."""
    import types
    if tracer is None:
        return 0
    seen, found = set(), set()

    def walk(o, depth):
        if id(o) in seen or depth > 3:
            return
        seen.add(id(o))
        if isinstance(o, types.FrameType):
            if id(o) in S.done_ids and id(o) not in S.frames:
                found.add(id(o))
            return
        if isinstance(o, dict):
            for k, v in list(o.items()):
                walk(k, depth + 1)
                walk(v, depth + 1)
        elif isinstance(o, (list, tuple, set, frozenset)):
            for x in list(o):
                walk(x, depth + 1)
    try:
        attrs = list(vars(tracer).values())
    except TypeError:
        attrs = [getattr(tracer, n, None) for n in getattr(type(tracer), "__slots__", ())]
    for a in attrs:
        walk(a, 0)
    return len(found)


def run_scenario(sc):
    """sc = {tid, hist, rate, k, seed, rich}; returns the trace record."""
    env = _setup_modules()
    from mtfx import script
    import monkeytype.tracing as mtt
    S = script.S
    rng = random.Random(sc["seed"])
    admit = sc.get("admit")
    twin_rejected = bool(sc.get("twin_rejected"))     # the code filter admits the traced module but not its byte-identical twin
    acts, chosen = build_actions(sc["hist"], rng, env, sc.get("rich"), admit, sc.get("force"), twin_rejected)
    targets = {n: t["maker_f"] for n, t in env["targets"].items()}
    env["M"].LateKls = None          # the late-bound class starts every scenario unbound
    S.reset(acts, targets, absmodel.abs_value)
    reg = env["reg"] if admit is None else {c: (n, w and n.split(":")[-1] in admit, m) for c, (n, w, m) in env["reg"].items()}
    if twin_rejected:
        reg = {c: (n, w and not n.startswith("mtx_twin:"), m) for c, (n, w, m) in reg.items()}
    logger = RecordingLogger(S, reg, sc.get("log_fails", 0))
    traced_path = (env["traced_path"],) if twin_rejected else (env["traced_path"], env["twin_path"])
    if admit is None:
        code_filter = lambda code: code.co_filename in traced_path  # noqa: E731
    else:
        code_filter = lambda code: code.co_filename in traced_path and code.co_qualname in admit  # noqa: E731
    # Script the sampling draws wherever the tracer gets them from: the `random` module attribute of
    # monkeytype.tracing (random.randrange / random.Random() made per tracer), and - for a generator object created
    # elsewhere in monkeytype, e.g. at import time - random.Random.randrange itself when the caller is monkeytype code.
    import random as _random_mod
    if sc.get("filter_values"):
        # a filter that answers with truthy / falsy VALUES instead of True / False (re.search(...), dict.get(...), a count)
        acc, rej = {"re": (object(), None), "count": (2, 0), "text": ("yes", ""), "seq": ([0], [])}[sc["filter_values"]]
        base_filter = code_filter
        code_filter = lambda code: acc if base_filter(code) else rej  # noqa: E731
    if sc.get("falsy_filter"):
        # a filter OBJECT (callable) whose truth value is False - an empty collection of patterns with a __call__
        inner_filter = code_filter

        class PatternFilter(list):
            def __call__(self, code):
                return inner_filter(code)
        code_filter = PatternFilter()
    old_random = mtt.random
    fake = script.FakeRandom()
    mtt.random = fake
    orig_randrange = _random_mod.Random.randrange
    mt_dir = os.path.dirname(os.path.abspath(mtt.__file__)) + os.sep

    def hooked_randrange(self, *a, **kw):
        if len(a) == 1 and not kw and sys._getframe(1).f_code.co_filename.startswith(mt_dir):
            return fake.randrange(a[0])
        return orig_randrange(self, *a, **kw)
    _random_mod.Random.randrange = hooked_randrange
    err = "NONE"
    tracer = None
    outer = None
    if sc.get("nested"):
        # the block is entered while ANOTHER tracing block of MonkeyType is active (a program that traces itself, run under
        # `monkeytype run`): the outer one admits nothing and has a logger of its own; the inner block must work as if alone
        outer_logger = RecordingLogger(S, {})
        outer = mtt.trace_calls(outer_logger, 0, lambda code: False)
        outer.__enter__()
    try:
        with mtt.trace_calls(logger, sc["k"], code_filter, sc["rate"] or None):
            tracer = sys.getprofile()
            S.thread_profiler = tracer if sc.get("threads") else None
            S.drive()
    except script.ScriptError:
        raise
    except Exception as e:  # something escaped the tracer / the program
        err = type(e).__name__
    finally:
        if outer is not None:
            try:
                outer.__exit__(None, None, None)
            except Exception:
                pass
        mtt.random = old_random
        _random_mod.Random.randrange = orig_randrange
    S.thread_profiler = None
    resid = residue_count(tracer, S)
    S.emit(ev="End", resid=resid, flushes=logger.flushes, err=err)
    events = S.events
    for e in events:   # homogeneous optional fields
        e.setdefault("fid", 0)
    rec = {"tid": sc["tid"], "rate": sc["rate"], "k": sc["k"], "events": events,
           "targets": {str(i): t["name"] for i, t in chosen.items()}, "draws": list(S.draw_log)}
    S.reset([], {}, None)
    return rec


def _run_chunk(chunk):
    import warnings
    warnings.simplefilter("ignore", RuntimeWarning)
    import logging
    logging.disable(logging.CRITICAL)      # (the tracer reports contained failures - scripted here - through `logging`)
    _setup_modules()
    import gc
    gc.freeze()        # what exists now (the inherited scenario lists) is never garbage: later collections look at new objects only
    recs = [run_scenario(sc) for sc in chunk]
    return recs, (absmodel.TABLE.mro, absmodel.TABLE.bases, absmodel.TABLE.modqn)


def run_scenarios(scs, procs=16):
    chunks = [scs[i::procs] for i in range(procs)]
    out = []
    with concurrent.futures.ProcessPoolExecutor(max_workers=procs) as ex:
        for recs, (mro, bases, modqn) in ex.map(_run_chunk, [c for c in chunks if c]):
            out.extend(recs)
            absmodel.TABLE.mro.update(mro)
            absmodel.TABLE.bases.update(bases)
            absmodel.TABLE.modqn.update(modqn)
    return out


# ------------------------------------------------------------------------------ prediction comparison (drift)
def token_of(ty):
    if ty["k"] == "absent":
        return "ABSENT"
    if ty["k"] == "cls":
        return {"int": "int", "NoneType": "none", "async_generator_wrapped_value": "agwrap"}.get(ty["n"], ty["n"])
    return ty["k"]


def real_projection(rec):
    out = []
    for e in rec["events"]:
        if e["ev"] != "Log":
            continue
        a = [x for x in e["args"] if x["n"] == "a"]
        ys = e["ys"]
        yset = sorted({token_of(m) for m in (ys["u"] if ys["k"] == "union" else [ys])}) if ys["k"] != "absent" else []
        out.append({"f": e["model"], "arg": token_of(a[0]["ty"]) if a else None, "ys": yset, "ret": token_of(e["ret"])})
    return out


def pred_projection(pred, rec):
    out = []
    for p in pred["logged"]:
        out.append({"f": p["f"], "arg": p["arg"], "ys": sorted(p["ys"]), "ret": p["ret"]})
    return out


def drifted(rec, pred):
    real, exp = real_projection(rec), pred_projection(pred, rec)
    # frames still running at the depth bound are wound down by the harness (extra returns at the end)
    if len(real) < len(exp):
        return True
    real = real[:len(exp)]
    for r, e in zip(real, exp):
        if r["f"] != e["f"] or r["ys"] != e["ys"] or r["ret"] != e["ret"]:
            return True
        if r["arg"] is not None and r["arg"] != e["arg"]:
            return True
    return False


# ------------------------------------------------------------------------------ checks
DEV_NAMES = ["Dev_ReturnConst", "Dev_AwaitIsYield", "Dev_ThrowIsYield", "Dev_Resample", "Dev_AgenWrapped"]
C02_CLAUSES = {"ArgNames", "ArgTypes", "ReturnAbsentOnException", "ReturnPresent", "ReturnType", "YieldsOnly",
               "YieldsCovered", "AsyncGenYieldsOnly", "AsyncGenYieldsCovered", "SpuriousLog", "MissingOrOutOfOrder", "MissingLog", "Residue", "OnlyAdmitted", "Escaped"}


def scenario_signature(rec, sc, clause):
    ops = {h["op"] for h in sc["hist"]}
    # the recorded throw() finding is about SUSPENDED generators: a throw into a generator that was never started does not count
    started, susp_throw = set(), False
    for h in sc["hist"]:
        if h["op"] == "Throw" and h["id"] in started:
            susp_throw = True
        if h["op"] in ("Resume", "Delegate"):
            started.update(h.get("ch") or [h["id"]])
    sig = {"clause": clause, "has_throw": susp_throw, "has_drop": "Drop" in ops}
    if sc["rate"] > 1:
        first, late = {}, False
        for h in sc["hist"]:
            # ch = the frames that receive a call event in this action (a resumed delegation chain: all of them)
            ids = h.get("ch") if h.get("ch") is not None else ([h["id"]] if h["op"] in ("Resume", "Throw", "Drop") else [])
            if h["op"] == "Call":
                ids = []                                       # plain calls are entered once
            for x in ids:
                if x not in first:
                    first[x] = h["draw"]
                elif first[x] != 0 and h["draw"] == 0:
                    late = True
        sig["sampled"] = True
        if not rec.get("draws") and any(e["ev"] in ("Call", "Resume", "Delegate") for e in rec["events"]):
            # the tracer never asked the scripted RNG (it draws from somewhere the harness does not reach): which call
            # events were sampled is unknown, so the recorded finding (sampling repeated on every resume) can only be
            # recognised by its precondition - some generator / coroutine frame received more than one call event
            sig["rng_unscripted"] = True
            late = len(first) > 0 and any(sum(1 for h in sc["hist"] if x in (h.get("ch") or [])) > 1 for x in first)
        if clause in ("AsyncGenYieldsOnly", "AsyncGenYieldsCovered"):
            sig["clause"] = "FaithfulAsyncGen"
        if clause in ("ArgNames", "ArgTypes", "ReturnAbsentOnException", "ReturnPresent", "ReturnType", "YieldsOnly", "YieldsCovered") and sc["rate"] > 1:
            # which completed call a distorted entry is compared with is ambiguous under sampling
            sig["clause"] = "Faithful"
        sig["generator_sampled_after_skipped_first_entry"] = late
    return sig


def parked_generators(n):
    """A history in the model's vocabulary (not a TLC behaviour: far beyond its bounds): n generators are created, entered and
    left suspended after one yield; a plain function is called; then every generator rebinds its parameter, yields once more and
    returns - all in creation order."""
    H = lambda op, f, i, v="none", ch=(): {"op": op, "f": f, "id": i, "v": v, "catch": True, "draw": 0, "ch": list(ch)}  # noqa: E731
    h = []
    for i in range(1, n + 1):
        h += [H("Create", "G", i, "int"), H("Resume", "G", i, ch=[i]), H("Yield", "G", i, "int", [i])]
    h += [H("Call", "F", n + 1, "int", [n + 1]), H("Return", "expr", n + 1, "int")]
    for i in range(1, n + 1):
        h += [H("Resume", "G", i, ch=[i]), H("Rebind", "G", i, "none"), H("Yield", "G", i, "none", [i]),
              H("Resume", "G", i, ch=[i]), H("Return", "expr", i, "int")]
    return h


def binom_interval(n, p, eps=1e-9):
    """[lo, hi] such that P(X < lo) + P(X > hi) < eps for X ~ Binomial(n, p) (exact, log space)."""
    import math
    logs = [math.lgamma(n + 1) - math.lgamma(i + 1) - math.lgamma(n - i + 1) + i * math.log(p) + (n - i) * math.log(1 - p)
            for i in range(n + 1)]
    pm = [math.exp(x) for x in logs]
    lo, acc = 0, 0.0
    while acc + pm[lo] < eps / 2:
        acc += pm[lo]
        lo += 1
    hi, acc = n, 0.0
    while acc + pm[hi] < eps / 2:
        acc += pm[hi]
        hi -= 1
    return lo, hi


def stat_runs(seed, tier):
    """Unscripted sampling with the real RNG: traced count of n plain calls for each rate."""
    env = _setup_modules()
    import monkeytype.tracing as mtt
    out = []
    n = 4000 if tier == "quick" else 100000
    for rate in (None, 1, 2, 3, 10, 100):
        random.seed(seed * 1000 + (rate or 0))

        class L:
            n = 0

            def log(self, t):
                L.n += 1

            def flush(self):
                pass
        from mtfx import script
        S = script.S
        path = env["traced_path"]
        f = env["M"].f_mod
        S.reset([], {}, absmodel.abs_value)
        with mtt.trace_calls(L(), 0, lambda code: code.co_filename == path, rate):
            for _ in range(n):
                S.actions, S.pos = [{"op": "Return", "how": "expr", "val": 1, "id": None}], 0
                S._pending_entry = {"ev": "Call", "f": "f_mod", "kind": "plain", "wanted": True, "caller": 0,
                                    "catch": True, "args": []}
                f(1)
                S.events.clear()
                S.keep.clear()
                S.frames.clear()
        p = 1.0 if not rate or rate == 1 else 1.0 / rate
        lo, hi = (n, n) if p == 1.0 else binom_interval(n, p)
        out.append({"rate": rate or 0, "n": n, "traced": L.n, "lo": lo, "hi": hi, "code_filter": True})
    # the same without any code filter (Config.code_filter() returns None by default): only f_mod's traces are counted
    for rate in (2, 10):
        random.seed(seed * 1000 + 500 + rate)
        cnt = [0]
        f = env["M"].f_mod

        class L2:
            def log(self, t):
                if t.func is f:
                    cnt[0] += 1

            def flush(self):
                pass
        from mtfx import script
        S = script.S
        S.reset([], {}, absmodel.abs_value)
        n2 = 1500 if tier == "quick" else 20000
        with mtt.trace_calls(L2(), 0, None, rate):
            for _ in range(n2):
                S.actions, S.pos = [{"op": "Return", "how": "expr", "val": 1, "id": None}], 0
                S._pending_entry = {"ev": "Call", "f": "f_mod", "kind": "plain", "wanted": True, "caller": 0, "catch": True, "args": []}
                f(1)
                S.events.clear()
                S.keep.clear()
                S.frames.clear()
        lo, hi = binom_interval(n2, 1.0 / rate)
        out.append({"rate": rate, "n": n2, "traced": cnt[0], "lo": lo, "hi": hi, "code_filter": False})
    # several tracing blocks entered through monkeytype.trace(config) with ONE config object whose sample_rate() answer
    # changes between blocks, and many very short blocks (a per-block effect - a restarted sequence of draws, a rate read
    # once and remembered - shows here and not in one long block)
    import monkeytype
    from monkeytype.config import Config

    class Counting:
        n = 0

        def log(self, t):
            Counting.n += 1

        def flush(self):
            pass

    class Cfg(Config):
        rate = None

        def trace_store(self):
            raise NotImplementedError

        def trace_logger(self):
            return Counting()

        def code_filter(self):
            return lambda code: code.co_filename == env["traced_path"]

        def sample_rate(self):
            return Cfg.rate
    from mtfx import script as _script
    S = _script.S
    f = env["M"].f_mod

    def call_f(times):
        for _ in range(times):
            S.actions, S.pos = [{"op": "Return", "how": "expr", "val": 1, "id": None}], 0
            S._pending_entry = {"ev": "Call", "f": "f_mod", "kind": "plain", "wanted": True, "caller": 0, "catch": True, "args": []}
            f(1)
            S.events.clear()
            S.keep.clear()
            S.frames.clear()
    # generators and coroutines that finish at their first entry (one call event each): they are thinned like every other call
    gfun, cfun = env["M"].g_mod, env["M"].c_mod

    def call_resumable(fn, name, kind, times):
        for _ in range(times):
            S.actions, S.pos = [{"op": "Return", "how": "expr", "val": 1, "id": None}], 0
            S._pending_entry = {"ev": "Call", "f": name, "kind": "plain", "wanted": True, "caller": 0, "catch": True, "args": []}
            obj = fn(1)
            try:
                next(obj) if kind == "gen" else obj.send(None)
            except StopIteration:
                pass
            S.events.clear()
            S.keep.clear()
            S.frames.clear()
    S.reset([], {}, absmodel.abs_value)
    ngen = 3000 if tier == "quick" else 30000
    for rate in (3, 20):
        for fn, name, kind in ((gfun, "g_mod", "gen"), (cfun, "c_mod", "coro")):
            Counting.n = 0
            random.seed(seed * 1000 + 900 + rate)
            with mtt.trace_calls(Counting(), 0, lambda code: code.co_filename == env["traced_path"], rate):
                call_resumable(fn, name, kind, ngen)
            lo, hi = binom_interval(ngen, 1.0 / rate)
            out.append({"rate": rate, "n": ngen, "traced": Counting.n, "lo": lo, "hi": hi, "code_filter": True,
                        "program": "%s calls that finish at their first entry" % ("generator" if kind == "gen" else "coroutine")})
    cfg = Cfg()
    S.reset([], {}, absmodel.abs_value)
    nb = 2000 if tier == "quick" else 20000
    for rate, calls in ((50, nb), (None, 300), (1, 300), (4, nb), (None, 200), (2, nb)):
        Cfg.rate, Counting.n = rate, 0
        with monkeytype.trace(cfg):
            call_f(calls)
        p = 1.0 if not rate or rate == 1 else 1.0 / rate
        lo, hi = (calls, calls) if p == 1.0 else binom_interval(calls, p)
        out.append({"rate": rate or 0, "n": calls, "traced": Counting.n, "lo": lo, "hi": hi, "code_filter": True,
                    "program": "one config object reused for consecutive monkeytype.trace(config) blocks"})
    for rate in (4, 10):
        Cfg.rate, Counting.n = rate, 0
        blocks = 400 if tier == "quick" else 4000
        for _ in range(blocks):
            with monkeytype.trace(cfg):
                call_f(3)
        lo, hi = binom_interval(3 * blocks, 1.0 / rate)
        out.append({"rate": rate, "n": 3 * blocks, "traced": Counting.n, "lo": lo, "hi": hi, "code_filter": True,
                    "program": "%d tracing blocks of 3 calls each" % blocks})
    # many functions, each called only a few times (a per-function effect - first call, warm-up - shows here and not in a
    # hot loop over one function)
    nf, reps = (400, 2) if tier == "quick" else (4000, 3)
    d = tlc.scratch_dir("mtverif_many_")
    try:
        mpath = os.path.join(d, "mtx_many_%d.py" % os.getpid())
        with open(mpath, "w") as fh:
            fh.write("".join("def fn%d(a):\n    return a\n\n\n" % i for i in range(nf)))
        for rate in (2, 10):
            ns = {}
            with open(mpath) as fh:
                exec(compile(fh.read(), mpath, "exec"), ns)          # fresh code objects for every rate
            funcs = [ns["fn%d" % i] for i in range(nf)]
            ns["__name__"] = "mtx_many"
            for f2 in funcs:
                f2.__module__ = "mtx_many"
            sys.modules["mtx_many"] = type(sys)("mtx_many")
            sys.modules["mtx_many"].__dict__.update({f2.__name__: f2 for f2 in funcs})
            random.seed(seed * 1000 + 700 + rate)
            cnt = [0]

            class L3:
                def log(self, t):
                    cnt[0] += 1

                def flush(self):
                    pass
            with mtt.trace_calls(L3(), 0, lambda code: code.co_filename == mpath, rate):
                for _ in range(reps):
                    for f2 in funcs:
                        f2(1)
            sys.modules.pop("mtx_many", None)
            lo, hi = binom_interval(nf * reps, 1.0 / rate)
            out.append({"rate": rate, "n": nf * reps, "traced": cnt[0], "lo": lo, "hi": hi, "code_filter": True,
                        "program": "%d functions called %d times each" % (nf, reps)})
    finally:
        shutil.rmtree(d, ignore_errors=True)
    return out


def main(pid, tier, seed, replay=None):
    core.use_repo()
    envgen.load_fixture_classes()
    run = core.Run(pid, tier, seed)
    devs = core.model_deviations(DEV_NAMES)
    q = tier == "quick"
    sampled = pid == "C18"
    rate_model = 2 if sampled else 0
    plan = []
    if replay:
        with open(replay) as fh:
            scs = [json.load(fh)["case"]]
        for s in scs:
            s["tid"] = 1
        preds, mc = {}, None
    else:
        # 1. design check: I-layer with every deviation off satisfies the P invariants
        # (under sampling every call event doubles the branching: the thorough bound is one frame more, not two levels deeper)
        mc = tlc.run_tlc("MTTracerMC", cfg_text=mc_cfg(rate_model, 8 if (q or sampled) else 10, 3 if q else 4, True, {}, True, False, True),
                         workers=16, timeout=7200, xmx="24g")
        tlc.check_ok(mc, "MTTracerMC design")
        if mc.invariant_violated:
            raise tlc.TLCFailure("MTTracerMC: design-level invariant violated: %s" % mc.invariant_violated)
        # ... and over all five kinds of function (plain, filtered, generator, coroutine, async generator), one level less deep
        mc5 = tlc.run_tlc("MTTracerMC", cfg_text=mc_cfg(rate_model, 7 if q else 8, 3, True, {}, True, False, True, alphabet="All"),
                          workers=16, timeout=7200, xmx="24g")
        tlc.check_ok(mc5, "MTTracerMC design (all kinds)")
        if mc5.invariant_violated:
            raise tlc.TLCFailure("MTTracerMC (all kinds): design-level invariant violated: %s" % mc5.invariant_violated)
        mc.distinct += mc5.distinct
        mc.generated += mc5.generated
        # 2. behaviours of the model as the code is: exhaustive paths to a small depth, simulation beyond
        d_bfs = (3 if sampled else 4) if q else (4 if sampled else 5)   # depth 6 / sampled depth 5 exceed memory (>1.3M paths)
        beh1, r1 = tlc_behaviours(rate_model, d_bfs, 3, devs, throw=not sampled)
        plan.append({"family": "all maximal paths of MTTracer to depth %d (exhaustive)" % d_bfs, "behaviours": len(beh1)})
        if not sampled:
            d_gf = 6 if q else 8
            beh3, _ = tlc_behaviours(rate_model, d_gf, 3, devs, alphabet="GF")
            plan.append({"family": "all maximal paths over {plain function, generator} to depth %d: resume / throw / drop / "
                                   "call-right-after-drop (exhaustive)" % d_gf, "behaviours": len(beh3)})
            beh1 = beh1 + beh3
            d_af = 6 if q else 7
            beh4, _ = tlc_behaviours(rate_model, d_af, 3, devs, alphabet="AF", throw=False)
            plan.append({"family": "all maximal paths over {plain function, async generator} to depth %d: yield / await / rebind / "
                                   "raise (exhaustive)" % d_af, "behaviours": len(beh4)})
            beh1 = beh1 + beh4
        nsim = (12000 if sampled else 4000) if q else 60000
        beh2, r2 = tlc_behaviours(rate_model, 12 if q else 16, 4, devs, simulate="num=%d" % nsim, seed=seed + 1,
                                  throw=not sampled, alphabet="All")
        plan.append({"family": "random behaviours of MTTracer, depth %d, 4 frames (simulation)" % (12 if q else 16),
                     "behaviours": len(beh2)})
        if len(beh2) > nsim:
            beh2 = random.Random(seed).sample(beh2, nsim)
            plan[-1]["replayed_sample"] = nsim
        scs, preds = [], {}
        rates = [2, 3, 10, 100] if sampled else [0, 1]
        rng = random.Random(seed)
        rich = None
        from . import universe
        rich = universe.export("MTInferExport", "mid1", ["MTValues", "MTUniverse"], envgen.mtenv_text())
        for i, b in enumerate(beh1 + beh2):
            tid = len(scs) + 1
            rate = rates[i % len(rates)]
            scs.append({"tid": tid, "hist": b["hist"], "rate": rate, "k": 0, "seed": seed * 7919 + i, "twin_rejected": i % 4 == 3, "falsy_filter": i % 16 == 5,
                        "log_fails": (1 + i % 3) if i % 8 == 6 else 0, "nested": i % 9 == 4, "threads": i % 11 == 7})
            preds[tid] = b["pred"]
            if i % 5 == 0:   # the same behaviour with rich values (no prediction; P-layer only)
                scs.append({"tid": tid + 1, "hist": b["hist"], "rate": rate, "k": rng.choice([0, 3]),
                            "seed": seed * 7919 + i, "rich": rng.sample(rich, 6)})
        if not sampled:
            # directed: very many generators suspended at once (a bound on the tracer's pending calls, a pruning pass, a
            # per-call scan of the pending table would show here and nowhere in the small behaviours above)
            for n_parked in ((1100,) if q else (1100, 3000, 12000)):
                scs.append({"tid": len(scs) + 1, "hist": parked_generators(n_parked), "rate": 0, "k": 0, "seed": seed})
            plan.append({"family": "directed: 1100 (.. 12000) generators suspended at the same time, a plain call in between, then all "
                                   "of them rebound, resumed and finished in creation order", "behaviours": 1 if q else 3})
    records = run_scenarios(scs)
    env_text = envgen.mtenv_text()
    by_tid = {r["tid"]: r for r in records}
    sc_by_tid = {s["tid"]: s for s in scs}
    slim = [{k: r[k] for k in ("tid", "rate", "k", "events")} for r in records]
    stats = []
    if sampled and not replay:
        stats = stat_runs(seed, tier)
        for j, st in enumerate(stats):
            tid = 10 ** 7 + j
            slim.append({"tid": tid, "rate": st["rate"], "k": 0, "events": [dict(st, ev="Stat", fid=0)]})
            by_tid[tid] = {"tid": tid, "events": [{"ev": "End"}], "stat": st}
            sc_by_tid[tid] = {"hist": [], "rate": st["rate"], "k": 0, "seed": seed, "stat": st}
    verdicts, states, trans, wall = tlc.validate_shards("MTTracerTrace", "MTInferTrace.cfg", slim,
                                                        extra_files={"MTEnv.tla": env_text})
    for v in verdicts:
        rec, sc = by_tid[v["tid"]], sc_by_tid[v["tid"]]
        for clause in v.get("viol", []):
            case = {k: sc[k] for k in ("hist", "rate", "k", "seed", "twin_rejected", "falsy_filter", "log_fails", "nested", "filter_values", "threads") if k in sc}
            if "rich" in sc:
                case["rich"] = sc["rich"]
            run.violation(scenario_signature(rec, sc, clause), case)
    for r in records:
        end = r["events"][-1]
        if end.get("err", "NONE") != "NONE":
            run.violation({"clause": "Escaped", "err": end["err"]}, {k: sc_by_tid[r["tid"]][k] for k in ("hist", "rate", "k", "seed")})
        # (a scenario whose filter rejects the twin module has no model counterpart: the model's functions are all admitted)
        if r["tid"] in preds and not sc_by_tid[r["tid"]].get("twin_rejected") and drifted(r, preds[r["tid"]]):
            run.drift += 1
    nthrow = sum(1 for s in scs if any(h["op"] == "Throw" for h in s["hist"]))
    nt = {json.dumps([[h["op"], h["f"], h["id"], h["v"], h["catch"], h["draw"]] for h in s["hist"]]) + str(s["rate"])
          for s in scs if len({h["op"] for h in s["hist"]}) >= 3}
    ex = records[len(records) // 3]
    cov = {
        "states": (mc.distinct if mc else 0) + states,
        "transitions": (mc.generated if mc else 0) + trans,
        "traces_validated_against_impl": len(records),
        "evaluations": len(records),
        "distinct_nontrivial": len(nt),
        "rule": "one trace = one behaviour of the MTTracer model (program actions chosen by TLC: calls, generator/coroutine "
                "creation and resumption, yields, await suspensions, returns of an expression / a constant / implicit, raises "
                "caught or propagated, rebinding, throw()) executed by scripted fixture functions of every kind under the real "
                "trace_calls, with the program's own ground-truth log validated by TLC against MTTracerTrace; non-trivial = the "
                "behaviour uses at least 3 different kinds of action; distinct by (action sequence, rate)",
        "samples": [core.trim({"targets": ex["targets"], "events": ex["events"]}, 2500)],
        "plan": plan,
        "rates": sorted({s["rate"] for s in scs}),
        "extended_alphabet": {"scenarios_with_throw_into_generator": nthrow},
        "sampling_statistics": stats,
        "mc": None if mc is None else {"spec": "MTTracerMC, deviations off: ExactlyOnceInOrder, SampledSubset, NoResidue",
                                       "rate": rate_model, "distinct_states": mc.distinct, "states_generated": mc.generated,
                                       "depth": mc.depth, "wall_s": round(mc.wall, 1)},
        "model_deviations_as_code": devs,
        "trace_validation": {"spec": "MTTracerTrace", "tlc_states": states, "wall_s": round(wall, 1)},
        "exhaustive": False,
    }
    return run.finish(cov)
