"""C10: stores built from valid rows of a fixture package interleaved with every kind of stale row; the
real CLI (`stub` / `apply`, with and without -v) runs on them and on the decodable rows alone; TLC
validates the observations against MTDecodeTrace."""
import concurrent.futures
import importlib
import io
import itertools
import json
import os
import random
import re
import shutil
import sqlite3
import sys

from . import core, stubmodel, tlc

MOD_SRC = '''"""GENERATED target module for C10"""
import functools


class Arg:
    pass


class Ret:
    pass


NotAType = 5


def ok1(a):
    return a


def ok2(a, b=None):
    return Ret()


def renamed(new_name):
    return new_name


now_nonfunction = 3
now_builtin = max                 # a name that used to be a traced Python function and is now bound to a C builtin
now_bound_builtin = [].append     # ... to a bound builtin method


class now_class:
    pass


class P:
    @property
    def sp(self):
        return 1

    @sp.setter
    def sp(self, v):
        pass

    def meth(self, x):
        return x


def outer():
    def inner(x):
        return x
    return inner


def nowraps(f):
    def w(*a, **k):
        return f(*a, **k)
    return w


@nowraps
def unwrapped(a):
    return a


from mtc10_other import moved_function      # used to be defined here; now lives in another module and is re-imported


class _OldHome:
    def meth(self, x):
        return x


class NewHome:
    meth = _OldHome.meth          # the method was kept under a new class; its own qualified name still says _OldHome.meth ...


del _OldHome                      # ... and that class is gone


class _Lazy:
    """A proxy that answers every attribute with another proxy (a lazy import, a mock)."""
    def __getattr__(self, name):
        return _Lazy()


now_proxy = _Lazy()               # a name that used to be a traced function and is now bound to such a proxy


now_closure = outer()             # a name that used to be a traced function and is now bound to a function made by another function


import operator


class Q:
    def __init__(self):
        self._n = 1

    size = property(operator.attrgetter("_n"))      # used to be `def size(self)`; the getter is no longer a Python function
'''

INT = '{"module": "builtins", "qualname": "int"}'
STR = '{"module": "builtins", "qualname": "str"}'


def cls_json(mod, qn):
    return '{"module": "%s", "qualname": "%s"}' % (mod, qn)


def row_for(kind, mod, n=0):
    """(module, qualname, arg_types, return_type, yield_type) for one row of the given kind."""
    t = [INT, STR][n % 2]
    if kind == "valid":
        return (mod, "ok1", '{"a": %s}' % t, t, None)
    if kind == "valid2":
        return (mod, "ok2", '{"a": %s, "b": %s}' % (cls_json(mod, "Arg"), t), cls_json(mod, "Ret"), None)
    if kind == "valid_method":
        return (mod, "P.meth", '{"x": %s}' % t, t, None)
    if kind == "renamed_param":
        return (mod, "renamed", '{"old_name": %s}' % t, t, None)
    if kind == "function_removed":
        return (mod, "gone_func", '{"a": %s}' % t, t, None)
    if kind == "arg_class_removed":
        return (mod, "ok1", '{"a": %s}' % cls_json(mod, "GoneClass"), t, None)
    if kind == "return_class_removed":
        return (mod, "ok1", '{"a": %s}' % t, cls_json(mod, "GoneClass"), None)
    if kind == "yield_class_removed":
        return (mod, "ok1", '{"a": %s}' % t, None, cls_json(mod, "GoneClass"))
    if kind == "class_module_removed":
        return (mod, "ok1", '{"a": %s}' % cls_json("mt_gone_module_xyz.sub", "C"), t, None)
    if kind == "local_scope":
        return (mod, "outer.<locals>.inner", '{"x": %s}' % t, t, None)
    if kind == "now_nonfunction":
        return (mod, "now_nonfunction", '{"a": %s}' % t, t, None)
    if kind == "now_class":
        return (mod, "now_class", '{"a": %s}' % t, t, None)
    if kind == "now_settable_property":
        return (mod, "P.sp", "{}", t, None)
    if kind == "class_now_nontype":
        return (mod, "ok1", '{"a": %s}' % cls_json(mod, "NotAType"), t, None)
    if kind == "class_now_nontype_ret":      # another row naming the same non-type binding
        return (mod, "ok2", '{"a": %s, "b": %s}' % (t, t), cls_json(mod, "NotAType"), None)
    if kind == "class_module_removed_ret":   # another row naming the same removed module
        return (mod, "ok2", '{"a": %s, "b": %s}' % (t, t), cls_json("mt_gone_module_xyz.sub", "C"), None)
    if kind == "arg_class_removed_2":
        return (mod, "ok2", '{"a": %s, "b": %s}' % (cls_json(mod, "GoneClass"), t), t, None)
    if kind == "arg_module_removed_name_prefix":
        # a removed module whose NAME is a string prefix of the live target module's name; sorts (and so decodes) before
        # the rows of ok1 / ok2
        return (mod, "P.meth", '{"x": %s}' % cls_json(mod[:-1], "C"), t, None)
    if kind == "nowraps":
        return (mod, "unwrapped", '{"a": %s}' % t, t, None)
    if kind == "elem_class_now_nontype":      # INSIDE a generic: List[<a name that is no longer a type>]
        return (mod, "ok1", '{"a": {"module": "typing", "qualname": "List", "elem_types": [%s]}}' % cls_json(mod, "NotAType"), t, None)
    if kind == "elem_class_removed":
        return (mod, "ok2", '{"a": %s, "b": {"module": "typing", "qualname": "Dict", "elem_types": [%s, %s]}}' % (t, STR, cls_json(mod, "GoneClass")), t, None)
    if kind == "elem_class_now_nontype_ret":
        return (mod, "ok1", '{"a": %s}' % t,
                '{"module": "typing", "qualname": "Union", "elem_types": [%s, %s]}' % (cls_json(mod, "NotAType"), INT), None)
    if kind == "now_builtin":
        return (mod, "now_builtin", '{"a": %s}' % t, t, None)
    if kind == "now_bound_builtin":
        return (mod, "now_bound_builtin", '{"a": %s}' % t, None, None)
    if kind == "ret_unexported_builtin":      # a function that returned d.keys(): the class says it lives in builtins
        return (mod, "ok1", '{"a": %s}' % t, cls_json("builtins", "dict_keys"), None)
    if kind == "arg_unexported_builtin":      # a module object passed as an argument
        return (mod, "ok2", '{"a": %s, "b": %s}' % (cls_json("builtins", "module"), t), t, None)
    if kind == "moved_function":
        return (mod, "moved_function", '{"a": %s}' % t, t, None)
    if kind == "td_field_class_removed":
        return (mod, "ok1", '{"a": {"module": "monkeytype.typing", "qualname": "DUMMY_NAME", "is_typed_dict": true, "elem_types": '
                            '{"sku": %s, "coupon": %s}}}' % (t, cls_json(mod, "GoneClass")), t, None)
    if kind == "alias_of_removed":
        return (mod, "NewHome.meth", '{"x": %s}' % t, t, None)
    if kind == "now_proxy":
        return (mod, "now_proxy", '{"a": %s}' % t, t, None)
    if kind == "now_closure":
        return (mod, "now_closure", '{"x": %s}' % t, t, None)
    if kind == "prop_getter_nonfunction":
        return (mod, "Q.size", "{}", t, None)
    if kind == "dunder_removed":
        # the class no longer defines the method; the name still resolves, through inheritance, to a C-implemented
        # slot wrapper of `object` - which is not a Python function
        return (mod, "P.__init__", '{"x": %s}' % t, None, None)
    if kind == "dunder_removed_2":
        return (mod, "P.__repr__", "{}", STR, None)
    raise ValueError(kind)


DECODABLE = {"valid", "valid2", "valid_method", "renamed_param", "moved_function"}
KINDS = ["valid", "valid2", "valid_method", "renamed_param", "function_removed", "arg_class_removed", "return_class_removed",
         "yield_class_removed", "class_module_removed", "local_scope", "now_nonfunction", "now_class", "now_settable_property",
         "class_now_nontype", "class_now_nontype_ret", "class_module_removed_ret", "arg_class_removed_2",
         "arg_module_removed_name_prefix", "dunder_removed", "dunder_removed_2", "elem_class_now_nontype", "elem_class_removed",
         "elem_class_now_nontype_ret", "nowraps", "now_closure", "prop_getter_nonfunction",
         "ret_unexported_builtin", "arg_unexported_builtin", "moved_function", "td_field_class_removed",
         "alias_of_removed", "now_proxy"]

_W = {}


def _setup():
    if _W:
        return _W
    core.use_repo()
    d = tlc.scratch_dir("mtverif_c10_")
    sys.path.insert(0, d)
    with open(os.path.join(d, "mtc10_custom_store.py"), "w") as fh:
        fh.write(CUSTOM_STORE_SRC)
    with open(os.path.join(d, "mtc10_other.py"), "w") as fh:
        fh.write("def moved_function(a):\n    return a\n")
    _W.update(dir=d, n=0)
    return _W


CUSTOM_STORE_SRC = '''"""GENERATED: a third-party trace store (doc/stores.rst): its thunks promise to_trace() and nothing else."""
import os
import sqlite3
from monkeytype.config import DefaultConfig
from monkeytype.db.base import CallTraceStore, CallTraceThunk
from monkeytype.encoding import CallTraceRow


class OpaqueThunk(CallTraceThunk):
    __slots__ = ("_row",)

    def __init__(self, row):
        self._row = row

    def to_trace(self):
        return CallTraceRow(*self._row).to_trace()


class ListStore(CallTraceStore):
    def __init__(self, path):
        self.path = path

    @classmethod
    def make_store(cls, connection_string):
        return cls(connection_string)

    def add(self, traces):
        raise NotImplementedError

    def _rows(self):
        c = sqlite3.connect(self.path)
        try:
            return c.execute("SELECT module, qualname, arg_types, return_type, yield_type FROM monkeytype_call_traces "
                             "GROUP BY 1, 2, 3, 4, 5 ORDER BY date(created_at) DESC").fetchall()
        finally:
            c.close()

    def filter(self, module, qualname_prefix=None, limit=2000):
        rows = [r for r in self._rows() if r[0] == module and (qualname_prefix is None or r[1].startswith(qualname_prefix))]
        return [OpaqueThunk(r) for r in rows[:limit]]

    def list_modules(self):
        return sorted({r[0] for r in self._rows()})


class C(DefaultConfig):
    def trace_store(self):
        return ListStore(os.environ["MT_DB_PATH"])


CONFIG = C()
'''


def make_store(path, rows):
    c = sqlite3.connect(path)
    c.execute("CREATE TABLE IF NOT EXISTS monkeytype_call_traces (created_at TEXT, module TEXT, qualname TEXT, arg_types TEXT, "
              "return_type TEXT, yield_type TEXT)")
    for j, r in enumerate(rows):
        c.execute("INSERT INTO monkeytype_call_traces VALUES (?, ?, ?, ?, ?, ?)", ("2026-01-%02d 00:00:00" % (1 + j % 27),) + tuple(r))
    c.commit()
    c.close()


def cli_run(argv, dbpath):
    from monkeytype import cli
    out, err = io.StringIO(), io.StringIO()
    os.environ["MT_DB_PATH"] = dbpath
    crashed, rc = "NONE", -1
    try:
        rc = cli.main(argv, out, err)
    except SystemExit as e:
        rc = e.code if isinstance(e.code, int) else 1
        crashed = "SystemExit"
    except Exception as e:
        crashed = type(e).__name__
        try:        # name MonkeyType's own error kinds by their documented base class (subclasses may come and go)
            from monkeytype import exceptions as mte
            for base in ("NameLookupError", "InvalidTypeError", "MonkeyTypeError"):
                if isinstance(e, getattr(mte, base, ())):
                    crashed = base
                    break
        except Exception:
            pass
    return rc, crashed, out.getvalue(), err.getvalue()


def run_case(case):
    """case = {tid, kinds:[...], cmd, verbose, module_removed}"""
    w = _setup()
    w["n"] += 1
    mod = "mtc10_%d_%d" % (os.getpid(), w["n"])
    path = os.path.join(w["dir"], mod + ".py")
    removed = case.get("module_removed")
    if not removed:
        with open(path, "w") as fh:
            fh.write(MOD_SRC)
        importlib.invalidate_caches()
    kinds = case["kinds"]
    rows, seen, dk = [], set(), []
    for j, k in enumerate(kinds):
        r = row_for(k, mod, j // len(KINDS))
        if r not in seen:          # the store groups identical rows
            seen.add(r)
            rows.append(r)
            dk.append("module_removed" if removed else k)
    good = [] if removed else [r for r, k in zip(rows, dk) if k in DECODABLE]
    cmdv = {"stub": ["stub"], "apply": ["apply"], "stub_diff": ["stub", "--diff"]}[case["cmd"]]
    pre = ["-c", "mtc10_custom_store:CONFIG"] if case.get("custom_store") else []
    argv = pre + (["-v"] if case["verbose"] else []) + cmdv + [mod]
    db1, db2 = os.path.join(w["dir"], mod + ".db"), os.path.join(w["dir"], mod + "_good.db")
    try:
        make_store(db1, rows)
        make_store(db2, good)
        rc, crashed, out, err = cli_run(argv, db1)
        applied = None
        if case["cmd"] == "apply" and not removed:
            with open(path) as fh:
                applied = fh.read()
            with open(path, "w") as fh:
                fh.write(MOD_SRC)
            sys.modules.pop(mod, None)
        rc2, crashed2, out2, err2 = cli_run(pre + cmdv + [mod], db2)
        applied2 = None
        if case["cmd"] == "apply" and not removed:
            with open(path) as fh:
                applied2 = fh.read()
        if case["cmd"] == "stub_diff":
            same = out == out2
            stub_present = bool(out.strip()) or not re.search(r"(?i)no traces", err)      # an empty diff is a produced (empty) diff
        elif case["cmd"] == "stub":
            a1, a2 = stubmodel.abs_stub(out), stubmodel.abs_stub(out2)
            for a in (a1, a2):
                a.pop("_ev", None)
            same = a1 == a2
            stub_present = bool(out.strip())
        else:
            same = applied == applied2 and out == out2
            stub_present = bool(out.strip())
        # wording-tolerant: "<n> trace(s) failed to decode ..." in any capitalisation / number
        m = re.search(r"(?i)(\d+)\s+traces?\b[^\n]*?\bfail\w*\s+to\s+decode", err)
        rec = {"tid": case["tid"], "cmd": case["cmd"], "verbose": case["verbose"], "kinds": dk, "rc": rc if rc is not None else 0,
               "crashed": crashed, "same": bool(same), "stub_present": stub_present, "count": int(m.group(1)) if m else -1,
               "warnings": len(re.findall(r"(?im)^.*\bfail\w*\s+decoding\s+trace", err)), "no_traces_msg": bool(re.search(r"(?i)no traces", err)),
               "stderr": err[-300:], "reference_run_failed": crashed2 != "NONE" or rc2 != 0}
        return rec
    finally:
        sys.modules.pop(mod, None)
        for p in (path, db1, db2):
            try:
                os.unlink(p)
            except OSError:
                pass


def _run_chunk(chunk):
    _setup()
    import logging
    logging.disable(logging.CRITICAL)
    return [run_case(c) for c in chunk]


def run_cases(cases, procs=16):
    chunks = [cases[i::procs] for i in range(procs)]
    out = []
    with concurrent.futures.ProcessPoolExecutor(max_workers=procs) as ex:
        for recs in ex.map(_run_chunk, [c for c in chunks if c]):
            out.extend(recs)
    return out


def gen_cases(tier, seed):
    rng = random.Random(seed)
    cases, plan = [], []
    stale = [k for k in KINDS if k not in DECODABLE]
    valid = ["valid", "valid2", "valid_method", "renamed_param"]

    def add(label, seqs, cmds=("stub",), verb=(False, True), custom=False):
        n0 = len(cases)
        for ks in seqs:
            for cmd in cmds:
                for v in verb:
                    cases.append({"kinds": list(ks), "cmd": cmd, "verbose": v, **({"custom_store": True} if custom else {})})
        plan.append({"family": label, "cases": len(cases) - n0})
    add("every single kind", [[k] for k in KINDS], cmds=("stub", "apply"))
    add("every stale kind at every position among two valid rows",
        [p for s in stale for v in itertools.permutations(valid, 2) for p in ([s, *v], [v[0], s, v[1]], [*v, s])], cmds=("stub", "apply"), verb=(False,))
    add("all ordered pairs of kinds", list(itertools.permutations(KINDS, 2)), verb=(False,))
    trip = list(itertools.permutations(KINDS, 3))
    add("ordered triples of kinds (%s)" % ("sampled" if tier == "quick" else "exhaustive"),
        rng.sample(trip, 300) if tier == "quick" else trip, verb=(True,))
    add("random subsets and orders up to size 8, repeated kinds",
        [[rng.choice(KINDS) for _ in range(rng.randint(4, 8))] for _ in range(200 if tier == "quick" else 5000)],
        cmds=("stub", "apply"), verb=(False,))
    add("only stale rows (nothing decodable)", [rng.sample(stale, rng.randint(1, 4)) for _ in range(40)], cmds=("stub", "apply"))
    add("a third-party store whose thunks only promise to_trace(): every single kind, with and without -v",
        [[k] for k in KINDS] + [[rng.choice(valid), s, rng.choice(valid)] for s in stale[:8]], cmds=("stub",), custom=True)
    add("`stub --diff`: every single kind, stale rows among valid ones, only stale rows",
        [[k] for k in KINDS] + [[rng.choice(valid), s, rng.choice(valid)] for s in stale]
        + [rng.sample(stale, rng.randint(1, 3)) for _ in range(12)], cmds=("stub_diff",))
    n0 = len(cases)
    for ks in ([["valid"], ["valid", "valid2"]]):
        for cmd in ("stub", "apply"):
            cases.append({"kinds": ks, "cmd": cmd, "verbose": False, "module_removed": True})
    plan.append({"family": "module removed (rows for a module that no longer exists)", "cases": len(cases) - n0})
    # extended alphabet (C12/C10): function decorated without functools.wraps
    n0 = len(cases)
    for ks in (["nowraps"], ["valid", "nowraps"], ["nowraps", "function_removed", "valid2"]):
        cases.append({"kinds": ks, "cmd": "stub", "verbose": False})
    plan.append({"family": "extended alphabet: decorator without functools.wraps", "cases": len(cases) - n0})
    # names now bound to things that LOOK like functions to the decoder but have no place in a stub
    n0 = len(cases)
    for ks in (["now_closure"], ["valid", "now_closure"], ["now_closure", "function_removed", "valid2"],
               ["prop_getter_nonfunction"], ["valid_method", "prop_getter_nonfunction"], ["prop_getter_nonfunction", "valid", "now_closure"]):
        for cmd in ("stub", "apply"):
            cases.append({"kinds": ks, "cmd": cmd, "verbose": cmd == "apply"})
    plan.append({"family": "a traced name now bound to a closure made by another function / a property whose getter is not a function",
                 "cases": len(cases) - n0})
    # every decodable row now belongs to ANOTHER module (the function moved and is re-imported): no stub for the module asked
    # for, yet the stale rows are counted and reported all the same
    n0 = len(cases)
    for ks in (["moved_function"], ["moved_function", "function_removed"], ["arg_class_removed", "moved_function", "now_class"],
               ["moved_function", "valid"], ["valid2", "moved_function", "return_class_removed"],
               ["td_field_class_removed"], ["td_field_class_removed", "valid"], ["ret_unexported_builtin", "valid2"], ["arg_unexported_builtin"],
               ["alias_of_removed"], ["alias_of_removed", "valid"], ["now_proxy"], ["valid2", "now_proxy"]):
        for cmd in ("stub", "apply"):
            for verbose in (False, True):
                cases.append({"kinds": ks, "cmd": cmd, "verbose": verbose})
    plan.append({"family": "rows that decode into another module's function; stale class inside a TypedDict field; classes of "
                           "builtins that builtins does not export", "cases": len(cases) - n0})
    # names that are no longer Python functions but C builtins (they cannot be what was traced)
    n0 = len(cases)
    for ks in (["now_builtin"], ["valid", "now_builtin"], ["now_bound_builtin", "valid2"], ["now_bound_builtin"]):
        for cmd in ("stub", "apply"):
            cases.append({"kinds": ks, "cmd": cmd, "verbose": False})
    plan.append({"family": "a traced name now bound to a C builtin / a bound builtin method", "cases": len(cases) - n0})
    for i, c in enumerate(cases):
        c["tid"] = i + 1
    return cases, plan


def main(pid, tier, seed, replay=None):
    core.use_repo()
    run = core.Run(pid, tier, seed)
    devs = core.model_deviations(["Dev_NoWrapsEscapes"])
    mc = None
    if replay:
        with open(replay) as fh:
            cases, plan = [dict(json.load(fh)["case"], tid=1)], [{"family": "replay", "cases": 1}]
    else:
        cases, plan = gen_cases(tier, seed)
        cfg = ("SPECIFICATION Spec\nCONSTANTS\n  Kinds <- KindsMC\n  MaxRows = %d\n  Dev_NoWrapsEscapes = FALSE\nINVARIANT NeverFatal\n"
               "INVARIANT SkipsExactly\nINVARIANT NoTracesIff\nCHECK_DEADLOCK FALSE\n") % (3 if tier == "quick" else 4)
        mc = tlc.run_tlc("MTDecodeMC", cfg_text=cfg, workers=16, timeout=3600)
        tlc.check_ok(mc, "MTDecodeMC")
        if mc.invariant_violated:
            raise tlc.TLCFailure("MTDecodeMC design violated")
    records = run_cases(cases)
    by_tid = {r["tid"]: r for r in records}
    case_by = {c["tid"]: c for c in cases}
    bad_ref = [r for r in records if r["reference_run_failed"] and "nowraps" not in r["kinds"]]
    for r in bad_ref:      # the command died on the rows that DO decode: fatal, whatever the stale rows did
        run.violation({"clause": "NeverFatal", "cmd": r["cmd"], "crashed": r["crashed"], "has_nowraps": False, "reference_run": True},
                      {k: case_by[r["tid"]][k] for k in case_by[r["tid"]] if k != "tid"})
    slim = [{k: v for k, v in r.items() if k not in ("stderr", "reference_run_failed")} for r in records]
    verdicts, states, trans, wall = tlc.validate_shards("MTDecodeTrace", None, slim, min_per_shard=100)
    for v in verdicts:
        rec = by_tid[v["tid"]]
        for clause in v.get("viol", []):
            run.violation({"clause": clause, "cmd": rec["cmd"], "crashed": rec["crashed"], "has_nowraps": "nowraps" in rec["kinds"],
                           **({"name_now_bound_to_builtin": True} if {"now_builtin", "now_bound_builtin"} & set(rec["kinds"]) else {}),
                           **({"name_now_bound_to": sorted({"now_closure", "prop_getter_nonfunction", "alias_of_removed", "now_proxy"} & set(rec["kinds"]))}
                              if {"now_closure", "prop_getter_nonfunction", "alias_of_removed", "now_proxy"} & set(rec["kinds"]) else {})},
                          {k: case_by[v["tid"]][k] for k in case_by[v["tid"]] if k != "tid"})
    extended = None
    if not replay:
        from . import replay_cli
        extended = replay_cli.extended_stage(tier, seed)
    mixed = {json.dumps([r["kinds"], r["cmd"], r["verbose"]]) for r in records
             if any(k in DECODABLE for k in r["kinds"]) and any(k not in DECODABLE for k in r["kinds"])}
    ex = next(r for r in records if len(r["kinds"]) >= 3)
    cov = {
        "states": (mc.distinct if mc else 0) + states, "transitions": (mc.generated if mc else 0) + trans,
        "traces_validated_against_impl": len(records), "evaluations": 2 * len(records),
        "distinct_nontrivial": len(mixed),
        "rule": "one trace = one store populated directly with sqlite3 (valid rows of a generated module interleaved with stale rows "
                "of the listed kinds) and the real cli.main run on it and, for reference, on the decodable rows alone; non-trivial = "
                "the store mixes decodable and undecodable rows; distinct by (row kinds in order, command, -v)",
        "samples": [ex], "plan": plan,
        "mc": None if mc is None else {"spec": "MTDecodeMC: NeverFatal, SkipsExactly, NoTracesIff over all row sequences",
                                       "distinct_states": mc.distinct, "states_generated": mc.generated},
        "trace_validation": {"spec": "MTDecodeTrace", "tlc_states": states, "wall_s": round(wall, 1)},
        "extended_spec": extended,
        "exhaustive": False,
    }
    return run.finish(cov)
