"""C01 / C14 / C06 (end to end): real tracing of generated workloads -> real SQLite store -> real `stub`
CLI -> stub text evaluated with the names it provides; TLC validates against MTPipelineTrace."""
import concurrent.futures
import io
import itertools
import json
import os
import random
import sqlite3
import subprocess
import sys

from . import absmodel, core, envgen, replay_codec, stubmodel, tlc, universe

TARGET_SRC = '''"""GENERATED target module for the pipeline checks"""
from mtfx.pipe_rt import nxt, ys


def f0(a, b=None):
    return nxt()


def f1(x):
    return nxt()


def z0():
    return nxt()


class K:
    def m(self, a):
        return nxt()

    @classmethod
    def c(cls, a):
        return nxt()

    @staticmethod
    def s(a):
        return nxt()

    @property
    def p(self):
        return nxt()


def g0(a):
    for v in ys():
        yield v
    return nxt()


async def c0(a):
    return nxt()


def fa(a: int, b=None) -> int:
    return nxt()


def fm(a, b=None):
    """changes its first argument in place and hands the very same object back"""
    if isinstance(a, dict):
        if b is None:
            a.clear()
        else:
            a[b] = b
    elif isinstance(a, list):
        a.append(b)
    return a


def fr(a, b=None):
    """re-keys its first argument in place (same size, same values) and hands the very same object back"""
    if isinstance(a, dict) and a:
        first = next(iter(a))
        a[b] = a.pop(first)
    elif isinstance(a, list) and a:
        a[0] = b
    return a


def gm(a):
    """yields the very same object before and after changing it in place"""
    yield a
    if isinstance(a, dict):
        a[0] = 0
    elif isinstance(a, list):
        del a[:]
    yield a
'''

CONFIG_SRC = '''"""GENERATED config for the pipeline checks; settings come from the environment"""
import os
from monkeytype.config import Config
from monkeytype.db.sqlite import SQLiteStore
from monkeytype import typing as mt


def _rewriter(name):
    table = {"NONE": mt.NoOpRewriter, "REC": mt.RemoveEmptyContainers, "RCD": mt.RewriteConfigDict,
             "RLU5": mt.RewriteLargeUnion, "RLU2": lambda: mt.RewriteLargeUnion(2), "MSCB": mt.RewriteMostSpecificCommonBase,
             "RG": mt.RewriteGenerator}
    return mt.DEFAULT_REWRITER if name == "DEFAULT" else table[name]()


class PipeConfig(Config):
    def trace_store(self):
        return SQLiteStore.make_store(os.environ["MTP_DB"])

    def code_filter(self):
        import mtp_target
        path = mtp_target.__file__
        return lambda code: code.co_filename == path

    def max_typed_dict_size(self):
        return int(os.environ.get("MTP_K", "0"))

    def type_rewriter(self):
        return _rewriter(os.environ.get("MTP_RW", "NONE"))


CONFIG = PipeConfig()


class LateConfig(PipeConfig):
    """A project whose settings are loaded by the cli_context hook (Django-style): before the hook runs, and after it has
    finished, the class answers with defaults that are NOT the project's (a larger TypedDict limit, the default rewriter)."""
    ready = False

    from contextlib import contextmanager

    @contextmanager
    def cli_context(self, command):
        LateConfig.ready = True
        try:
            yield
        finally:
            LateConfig.ready = False

    def max_typed_dict_size(self):
        return super().max_typed_dict_size() if LateConfig.ready else 10

    def type_rewriter(self):
        return super().type_rewriter() if LateConfig.ready else mt.DEFAULT_REWRITER


CONFIG_LATE = LateConfig()
'''

FUNCS = ["f0", "f1", "K.m", "K.c", "K.s", "K.p", "g0", "c0", "fa"]
_W = {}


def _setup():
    if _W:
        return _W
    core.use_repo()
    absmodel.ensure_fixture_path()
    d = tlc.scratch_dir("mtverif_pipe_")
    with open(os.path.join(d, "mtp_target.py"), "w") as fh:
        fh.write(TARGET_SRC)
    with open(os.path.join(d, "mtp_config.py"), "w") as fh:
        fh.write(CONFIG_SRC)
    sys.path.insert(0, d)
    os.environ["MTP_DB"] = os.path.join(d, "init.db")
    import mtp_config
    import mtp_target
    absmodel.TABLE.name(mtp_target.K)
    _W.update(dir=d, M=mtp_target, C=mtp_config, n=0)
    return _W


def begin_generator(M, rt, call, truth):
    """A g0 call that is started now (first value taken) and finished later by the returned function - in another tracing block."""
    args = [absmodel.real_value(v) for v in call["args"]]
    rt.RET[:] = [absmodel.real_value(call["ret"])]
    rt.YS[:] = [absmodel.real_value(v) for v in call.get("ys", [])]
    a0 = args[0] if args else None
    g = M.g0(a0)
    got = [next(g)] if rt.YS else []
    keep_ret, keep_ys = list(rt.RET), list(rt.YS)

    def finish():
        rt.RET[:], rt.YS[:] = keep_ret, keep_ys
        try:
            while True:
                got.append(next(g))
        except StopIteration as e:
            out = e.value
        truth.setdefault(("g0", "a"), []).append(absmodel.abs_value(a0))
        for v in got:
            truth.setdefault(("g0", "yield"), []).append(absmodel.abs_value(v))
        truth.setdefault(("g0", "return"), []).append(absmodel.abs_value(out))
    return finish


def perform(M, rt, call, truth):
    """One call of the workload; records ground truth (what was really passed / returned / yielded)."""
    f = call["f"]
    args = [absmodel.real_value(v) for v in call["args"]]
    ret = absmodel.real_value(call["ret"])
    ysv = [absmodel.real_value(v) for v in call.get("ys", [])]

    def note(pos, val):
        truth.setdefault((f, pos), []).append(absmodel.abs_value(val))
    rt.RET[:] = [ret]
    rt.YS[:] = ysv
    a0 = args[0] if args else None
    if f == "f0":
        b = args[1] if len(args) > 1 else None
        out = M.f0(a0, b)
        note("a", a0), note("b", b)
    elif f == "f1":
        out = M.f1(a0)
        note("x", a0)
    elif f == "z0":
        out = M.z0()
    elif f == "K.m":
        out = M.K().m(a0)
        note("a", a0)
    elif f == "K.c":
        out = M.K.c(a0)
        note("a", a0)
    elif f == "K.s":
        out = M.K.s(a0)
        note("a", a0)
    elif f == "K.p":
        out = M.K().p
    elif f == "fa":
        out = M.fa(a0 if type(a0) is int else 1, args[1] if len(args) > 1 else None)
        note("b", args[1] if len(args) > 1 else None)
    elif f == "g0":
        g = M.g0(a0)
        note("a", a0)
        got = []
        try:
            while True:
                got.append(next(g))
        except StopIteration as e:
            out = e.value
        for v in got:
            note("yield", v)
    elif f == "g0_abandon":
        # the generator is left suspended after its first value and dropped (a loop with `break`); such a call carries no
        # verdict of its own - but nothing of it may leak into what is recorded for the calls that follow
        g = M.g0(a0)
        next(g, None)
        del g
        del rt.RET[:]
        del rt.YS[:]
        return
    elif f == "g0_abandon_then":
        # ... and the very next thing the program does is call the same generator function with another argument and run
        # it to the end (no harness frame in between: the new frame may sit where the abandoned one sat)
        f = "g0"
        b0 = args[1] if len(args) > 1 else None
        out = rt.abandon_then(M.g0, a0, b0)
        note("a", b0)
    elif f == "fm":
        b = args[1] if len(args) > 1 else None
        note("a", a0), note("b", b)            # as they were when the call started
        out = M.fm(a0, b)
    elif f == "fr":
        b = args[1] if len(args) > 1 else None
        note("a", a0), note("b", b)            # as they were when the call started
        out = M.fr(a0, b)
    elif f == "gm":
        note("a", a0)
        g, out = M.gm(a0), None
        for v in g:
            note("yield", v)                   # as it was when it was yielded
    elif f == "c0":
        co = M.c0(a0)
        note("a", a0)
        try:
            co.send(None)
            raise RuntimeError("coroutine suspended")
        except StopIteration as e:
            out = e.value
    else:
        raise ValueError(f)
    if f != "fa":
        note("return", out)
    del rt.RET[:]


def stub_positions(text, own, truth):
    """Per (function, position): the evaluated annotation and the values observed there."""
    ab = stubmodel.abs_stub(text, own)
    pos = []
    if not ab["parses"]:
        return ab, [{"f": "?", "pos": "parse", "vals": [], "ann": absmodel.T("unresolved", "stub does not parse")}]
    for s in ab["funcs"]:
        f = ".".join(s["class_path"] + [s["name"]])
        for p in s["params"]:
            pos.append({"f": f, "pos": p["name"], "vals": truth.get((f, p["name"]), []), "ann": p["ann"]})
        ret = s["ret"]
        ys, rets = truth.get((f, "yield"), []), truth.get((f, "return"), [])
        if ys and ret["k"] == "iterator":
            pos.append({"f": f, "pos": "yield", "vals": ys, "ann": ret["a"][0]})
            pos.append({"f": f, "pos": "return", "vals": rets, "ann": absmodel.T("cls", "NoneType")})
        elif ys and ret["k"] == "generator":
            pos.append({"f": f, "pos": "yield", "vals": ys, "ann": ret["a"][0]})
            pos.append({"f": f, "pos": "return", "vals": rets, "ann": ret["a"][2]})
        else:
            pos.append({"f": f, "pos": "return", "vals": rets + (ys if ret["k"] != "absent" and ys else []), "ann": ret})
    return ab, pos


def td_key_counts(ab):
    out = []
    ev = ab.get("_ev")
    if ev is None:
        return out
    for name in ev.td:
        keys, cur, seen = set(), name, set()
        while cur in ev.td and cur not in seen:
            seen.add(cur)
            keys |= set(ev.td[cur]["fields"])
            cur = ev.td[cur]["base"]
        out.append({"name": name, "nkeys": len(keys), "keys": sorted(keys)})
    return out


def stored_encodings(db):
    c = sqlite3.connect(db)
    rows = c.execute("SELECT arg_types, return_type, yield_type FROM monkeytype_call_traces").fetchall()
    c.close()
    out = {}
    for args, ret, yld in rows:
        for d in list(json.loads(args).values()) + [json.loads(x) for x in (ret, yld) if x]:
            e = replay_codec.abs_enc(d)
            out[absmodel.canon(e)] = e
    return list(out.values())


def run_sound_case(case):
    """C01: case = {tid, calls, k, rw, flag}"""
    w = _setup()
    M = w["M"]
    import monkeytype
    from monkeytype import cli
    from mtfx import pipe_rt as rt
    w["n"] += 1
    db = os.path.join(w["dir"], "s%d_%d.db" % (os.getpid(), w["n"]))
    os.environ.update(MTP_DB=db, MTP_K=str(case["k"]), MTP_RW=case["rw"])
    truth = {}
    cfg_obj = w["C"].PipeConfig()      # one config object per traced program (the same one for every block of this case)
    try:
        if case.get("span_k1") is not None:
            # a generator started in one tracing block (its own, larger TypedDict limit) and finished in the next one, whose
            # settings are the case's: whatever is recorded is recorded by the second block and under ITS limit
            first = [c for c in case["calls"] if c["f"] == "g0"][:1]
            os.environ["MTP_K"] = str(case["span_k1"])
            with monkeytype.trace(cfg_obj):
                finishers = [begin_generator(M, rt, c, truth) for c in first]
            os.environ["MTP_K"] = str(case["k"])
            with monkeytype.trace(cfg_obj):
                for fin in finishers:
                    fin()
                for call in case["calls"]:
                    if not any(call is c for c in first):
                        perform(M, rt, call, truth)
        else:
            with monkeytype.trace(cfg_obj):
                for call in case["calls"]:
                    perform(M, rt, call, truth)
        if case.get("backdate"):
            # the program was run on two days: every other stored row is a day older (rows of one function are then not adjacent
            # in what the store returns)
            c9 = sqlite3.connect(db)
            c9.execute("UPDATE monkeytype_call_traces SET created_at = datetime(created_at, '-1 days') WHERE rowid % 2 = 1")
            c9.commit()
            c9.close()
        out, err = io.StringIO(), io.StringIO()
        glob = ["--disable-type-rewriting"] if case["flag"] == "--disable-type-rewriting" else []
        if case["flag"].startswith("--limit"):
            glob = case["flag"].split()
        sub = [case["flag"]] if case["flag"] and not glob else []
        argv = ["-c", "mtp_config:CONFIG_LATE" if case.get("late_config") else "mtp_config:CONFIG"] + glob + ["stub", "mtp_target"] + sub
        crashed = "NONE"
        try:
            rc = cli.main(argv, out, err)
        except SystemExit as e:
            raise RuntimeError("argparse rejected %r" % (argv,)) from e
        except Exception as e:
            rc, crashed = 1, type(e).__name__
        own = {"K": M.K}
        ab, positions = stub_positions(out.getvalue(), own, truth)
        if crashed != "NONE" or rc != 0:
            positions = [{"f": "?", "pos": "cli", "vals": [], "ann": absmodel.T("unresolved", "stub command failed: " + crashed)}]
        if case["flag"] != "--ignore-existing-annotations":
            positions = [p for p in positions if not (p["f"] == "fa" and p["pos"] in ("a", "return"))]
        ib_agrees = True
        if case["rw"] == "NONE" and not case["flag"] and crashed == "NONE" and rc == 0:
            from monkeytype.db.sqlite import SQLiteStore
            from monkeytype.stubs import StubIndexBuilder
            ib = StubIndexBuilder("mtp_target", case["k"])
            st = SQLiteStore.make_store(db)
            for th in st.filter("mtp_target"):
                try:
                    ib.log(th.to_trace())
                except Exception:
                    pass
            st.conn.close()
            try:
                ibstubs = ib.get_stubs()
                text2 = ibstubs["mtp_target"].render() if "mtp_target" in ibstubs else ""
            except Exception as e:
                text2 = "<<StubIndexBuilder raised %s>>" % type(e).__name__
            ab2, pos2 = stub_positions(text2, own, truth)
            pos2 = [p for p in pos2 if not (p["f"] == "fa" and p["pos"] in ("a", "return"))]      # (the same projection as above)
            key = lambda ps: sorted((p["f"], p["pos"], absmodel.canon(p["ann"])) for p in ps)  # noqa: E731
            ib_agrees = key(pos2) == key(positions) and td_key_counts(ab2) == td_key_counts(ab)
            if not ib_agrees and os.environ.get("VERIF_DEBUG_IB"):
                with open(os.environ["VERIF_DEBUG_IB"], "a") as fh:
                    fh.write(json.dumps({"case": case, "cli": out.getvalue(), "ib": text2}) + "\n")
        for q in positions:
            q["defnone"] = q["pos"] == "b"          # the only parameters of the target module with a None default
        rec = {"tid": case["tid"], "ev": "Sound", "k": case["k"], "tight": case["rw"] == "NONE" and not case["flag"],
               "positions": positions, "tds": td_key_counts(ab), "ib_agrees": ib_agrees,
               "stored": stored_encodings(db), "obs": [], "tdobs": [], "stub": out.getvalue()[:1200],
               "unres_sig": ab.get("unres_sig", []), "unres_td": ab.get("unres_td", []), "dup_td": ab.get("dup_td", False)}
        return rec
    finally:
        try:
            os.unlink(db)
        except OSError:
            pass


def run_same_case(case):
    """C14: case = {tid, calls, k, rw, variants:[{order, dups, split, seed}]}: the same trace set through
    different orders / duplications / batch splits / connections, stub generated in separate interpreters."""
    w = _setup()
    M = w["M"]
    from monkeytype.db.base import CallTraceStoreLogger
    from monkeytype.db.sqlite import SQLiteStore
    from monkeytype.tracing import CallTraceLogger, trace_calls
    from mtfx import pipe_rt as rt
    w["n"] += 1
    os.environ.update(MTP_K=str(case["k"]), MTP_RW=case["rw"])
    path = M.__file__
    by_rot = {}

    def traced(rot):
        """The workload traced once per rotation of every call's yield sequence (the same SET of values yielded)."""
        if rot not in by_rot:
            got = []

            class Collect(CallTraceLogger):
                def log(self, t):
                    got.append(t)
            with trace_calls(Collect(), case["k"], lambda code: code.co_filename == path):
                for call in case["calls"]:
                    ysv = call.get("ys", [])
                    r = rot % len(ysv) if ysv else 0
                    perform(M, rt, dict(call, ys=ysv[r:] + ysv[:r]), {})
            by_rot[rot] = got
        return by_rot[rot]
    obs, tdobs, texts = [], [], []
    for vi, var in enumerate(case["variants"]):
        traces = traced(var.get("ys_rot", 0))
        db = os.path.join(w["dir"], "v%d_%d_%d.db" % (os.getpid(), w["n"], vi))
        seq = [traces[i % len(traces)] for i in var["order"]] if traces else []
        cuts = sorted(set(c for c in var["split"] if 0 < c < len(seq)))
        batches = [seq[a:b] for a, b in zip([0] + cuts, cuts + [len(seq)])] or [[]]
        days = var.get("days") or []
        for bi, b in enumerate(batches):       # one connection per batch
            st = SQLiteStore.make_store(db)
            before = st.conn.execute("SELECT coalesce(max(rowid), 0) FROM monkeytype_call_traces").fetchone()[0]
            # through the stock logger, as a traced run does it (log every trace, flush once at the end of the run)
            lg = CallTraceStoreLogger(st)
            for t in b:
                lg.log(t)
            lg.flush()
            if bi < len(days) and days[bi]:    # this run happened `days[bi]` days earlier
                with st.conn:
                    st.conn.execute("UPDATE monkeytype_call_traces SET created_at = datetime(created_at, ?) WHERE rowid > ?",
                                    ("-%d days" % days[bi], before))
            st.conn.close()
        if var.get("stale") is not None:
            # a row of an admitted function whose ARGUMENT CLASS no longer exists (removed since it was traced), recorded
            # `stale` days ago: it can never decode, and it must not change what the other rows produce
            c3 = sqlite3.connect(db)
            c3.execute("INSERT INTO monkeytype_call_traces VALUES (datetime('now', ?), 'mtp_target', ?, ?, NULL, NULL)",
                       ("-%d days" % var["stale"], var.get("stale_func", "f1"),
                        '{"%s": {"module": "mtp_target", "qualname": "GoneClass"}}' % var.get("stale_arg", "x")))
            c3.commit()
            c3.close()
        env = dict(os.environ, MTP_DB=db, PYTHONHASHSEED=str(var["seed"]),
                   PYTHONPATH=os.pathsep.join([core.REPO, w["dir"], os.path.join(core.VERIF, "fixtures")]))
        limit = ["--limit", str(var["limit"])] if var.get("limit") else []
        p = subprocess.run([sys.executable, "-m", "monkeytype", "-c", "mtp_config:CONFIG"] + limit + ["stub", "mtp_target"],
                           env=env, capture_output=True, text=True, timeout=120, cwd=w["dir"])
        os.unlink(db)
        text = p.stdout if p.returncode == 0 else "<<stub failed rc=%s %s>>" % (p.returncode, p.stderr[-200:])
        texts.append(text)
        ab, positions = stub_positions(text, {"K": M.K}, {})
        obs.append([{"f": q["f"], "pos": q["pos"], "ann": q["ann"]} for q in positions])
        tdobs.append([{"name": t["name"], "keys": t["keys"]} for t in td_key_counts(ab)])
    return {"tid": case["tid"], "ev": "Same", "k": case["k"], "tight": False, "positions": [], "tds": [], "stored": [], "obs": obs, "tdobs": tdobs, "ib_agrees": True,
            "stub": texts[0][:800], "stub_other": next((t for t in texts if t != texts[0]), "")[:800]}


def _run_chunk(chunk):
    _setup()
    import logging
    logging.disable(logging.CRITICAL)
    recs = [(run_sound_case(c) if c["type"] == "sound" else run_same_case(c)) for c in chunk]
    return recs, (absmodel.TABLE.mro, absmodel.TABLE.bases, absmodel.TABLE.modqn)


def run_cases(cases, procs=16):
    chunks = [cases[i::procs] for i in range(procs)]
    out = []
    with concurrent.futures.ProcessPoolExecutor(max_workers=procs) as ex:
        for recs, (mro, bases, modqn) in ex.map(_run_chunk, [c for c in chunks if c]):
            out.extend(recs)
            absmodel.TABLE.mro.update(mro)
            absmodel.TABLE.bases.update(bases)
            absmodel.TABLE.modqn.update(modqn)
    return out


RWS = ["NONE", "REC", "RCD", "RLU5", "RLU2", "MSCB", "RG", "DEFAULT"]
FLAGS = ["", "--ignore-existing-annotations", "--omit-existing-annotations", "--disable-type-rewriting"]
NONE = absmodel.T("atom", "NoneType")


def gen_sound(tier, seed, env_text, pid=None):
    rng = random.Random(seed)
    U = lambda n: universe.export("MTInferExport", n, ["MTValues", "MTUniverse"], env_text)  # noqa: E731
    full1, small1, wide, tiny2 = U("full1"), U("small1"), U("wide"), U("tiny2")
    pool = full1 + wide + tiny2
    cases, plan = [], []

    def mk_call(f, vals, r):
        c = {"f": f, "args": [vals[0]] + ([vals[1]] if f in ("f0", "fa") and len(vals) > 1 else []), "ret": r, "ys": []}
        if f == "g0":
            c["ys"] = list(vals[1:3])
        return c

    def mk2(f, a, b):
        return {"f": f, "args": [a, b], "ret": absmodel.T("atom", "NoneType"), "ys": []}

    def add(label, histories, ks, rws, flags):
        n0 = len(cases)
        for h in histories:
            for k in ks:
                for rw in rws:
                    for fl in flags:
                        cases.append({"type": "sound", "calls": h, "k": k, "rw": rw, "flag": fl})
        plan.append({"family": label, "cases": len(cases) - n0})
    q = tier == "quick"
    # exhaustive: two calls of one function with every pair of a curated pool that has every container kind both
    # empty and non-empty (the f([]), f(None) shape; {} next to a populated defaultdict; ...)
    A = lambda n: absmodel.T("atom", n)  # noqa: E731
    Sx = lambda x: absmodel.T("str", x)  # noqa: E731
    P = lambda k, v: absmodel.T("pair", "", [k, v])  # noqa: E731
    C = lambda kind, *xs: absmodel.T(kind, "", list(xs))  # noqa: E731
    curated = [A("int"), Sx("s"), A("NoneType"), A("mtfx.shapes.B"), A("bool"),
               C("list"), C("list", A("int")), C("list", Sx("s")), C("set"), C("set", A("int")), C("tuple"), C("tuple", A("int")),
               C("dict"), C("dict", P(Sx("a"), A("int"))), C("dict", P(A("int"), Sx("s"))), C("ddict"), C("ddict", P(Sx("a"), A("int"))),
               C("list", C("list")), C("list", C("dict", P(Sx("a"), A("int")))), absmodel.T("genobj"), absmodel.T("func", "function"),
               absmodel.T("classobj", "mtfx.shapes.A"), C("dict", P(Sx("a"), C("list"))), C("tuple", C("list"), A("int")),
               # members of one Python class with different MonkeyType types inside a set / as dict keys
               C("set", C("tuple", A("int"), A("int")), C("tuple", Sx("x"), Sx("y"))),
               C("set", absmodel.T("classobj", "mtfx.shapes.A"), absmodel.T("classobj", "mtfx.shapes.B")),
               C("dict", P(C("tuple", A("int")), A("int")), P(C("tuple", Sx("k")), A("int"))),
               C("ddict", P(C("tuple", A("int")), A("int")), P(C("tuple", Sx("k")), Sx("v")))]
    sm = curated
    pairs = list(itertools.combinations(sm, 2))
    add("2 calls x every pair of 30 small values, default chain and none (exhaustive pairs)",
        [[mk_call("f1", [a], a), mk_call("f1", [b], b)] for a, b in pairs],
        [0, 3], ["DEFAULT", "REC"] if q else ["DEFAULT", "REC", "NONE", "RCD"], [""])
    # calls that differ in ONE column only (same arguments and return, different yields; same yields, different return ...)
    one_col = []
    for a, b in itertools.combinations(curated[:8], 2):
        one_col.append([{"f": "g0", "args": [A("int")], "ret": A("NoneType"), "ys": [a]},
                        {"f": "g0", "args": [A("int")], "ret": A("NoneType"), "ys": [b]}])
        one_col.append([{"f": "g0", "args": [A("int")], "ret": a, "ys": [A("int")]},
                        {"f": "g0", "args": [A("int")], "ret": b, "ys": [A("int")]}])
        one_col.append([{"f": "f0", "args": [A("int"), a], "ret": A("int"), "ys": []},
                        {"f": "f0", "args": [A("int"), b], "ret": A("int"), "ys": []}])
    add("two calls that differ in one stored column only (yield / return / one argument)", one_col, [0], ["NONE", "DEFAULT"], [""])
    dk = lambda *ks: C("dict", *[P(Sx(x), A("int")) for x in ks])  # noqa: E731
    add("dicts with disjoint key sets at one position (merged key set exceeds the limit)",
        [[mk_call(f, [dk("a", "b")], dk("a")), mk_call(f, [dk("c", "d")], dk("b")), mk_call(f, [dk("e")], dk("c", "d"))]
         for f in ("f1", "K.m", "f0")] + [[mk_call("f1", [C("list", dk("a", "b"), dk("c"))], A("int")), mk_call("f1", [C("list", dk("d"))], A("int"))]],
        [1, 2, 3], ["NONE", "DEFAULT"], [""])
    # records whose shared key is optional after one call (it is missing from a sibling record) and then shows up with
    # another value type: the merged field must admit both
    rec = lambda **kv: C("dict", *[P(Sx(k), v) for k, v in kv.items()])  # noqa: E731
    opt_then_other = []
    for f in ("f1", "K.m"):
        for t1, t2 in ((Sx("s"), A("int")), (A("int"), A("NoneType")), (C("list", A("int")), Sx("s"))):
            first = C("list", rec(a=A("int")), rec(a=A("int"), b=t1))
            opt_then_other.append([mk_call(f, [first], A("int")), mk_call(f, [C("list", rec(a=A("int"), b=t2))], A("int"))])
            opt_then_other.append([mk_call(f, [C("list", rec(a=A("int"), b=t2))], A("int")), mk_call(f, [first], A("int"))])
            opt_then_other.append([mk_call(f, [first], A("int")), mk_call(f, [C("list", rec(b=t2), rec(a=A("int")))], first)])
    add("a key that is optional after one call and has another value type in a later call (k >= 2)", opt_then_other,
        [2, 3], ["NONE", "DEFAULT"], [""])
    # equally named positions holding records of different shapes (their generated classes get one name)
    same_name = [[mk_call("f0", [dk("a", "b"), A("NoneType")], A("int")), mk_call("K.m", [dk("c", "d")], A("int")),
                  mk_call("K.s", [dk("e")], A("int"))],
                 [mk_call("K.c", [dk("p", "q")], dk("r")), mk_call("K.m", [dk("q", "r", "s")], dk("p"))],
                 [mk_call("f0", [C("dict", P(Sx("a"), dk("x", "y")), P(Sx("z"), A("int"))), A("NoneType")], A("int"))]]
    add("equally named positions in several functions / a field named like its parameter, different record shapes",
        same_name, [2, 3], ["NONE", "DEFAULT"], [""])
    # a rare value recorded early, then the usual one many more times than the query limit (the number of DISTINCT traces
    # stays far below the limit: every one of them must reach the stub)
    many = []
    for f, pos in (("f1", 0), ("K.m", 0), ("f0", 1)):
        for rare, usual in ((Sx("id"), A("int")), (A("NoneType"), C("list", A("int"))), (C("dict"), C("dict", P(Sx("a"), A("int"))))):
            def one(v, f=f, pos=pos):
                args = [v] if f != "f0" else ([A("int"), v] if pos == 1 else [v, A("int")])
                return {"f": f, "args": args, "ret": v, "ys": []}
            many.append([one(rare)] + [one(usual) for _ in range(70)])
            many.append([one(usual) for _ in range(35)] + [one(rare)] + [one(usual) for _ in range(35)])
    add("a rare value once, the usual one 70 times, query limit 50 / 5 (distinct traces: 2)", many, [0], ["NONE", "DEFAULT"],
        ["--limit 50", "--limit 5"])
    # a generator abandoned while suspended, then calls of functions with frames of several sizes (an address is reused)
    aband = []
    for rounds in (6, 20):
        h = []
        for i in range(rounds):
            h.append({"f": "g0_abandon", "args": [A("int")], "ret": A("NoneType"), "ys": [A("int"), A("int")]})
            for f, v in (("f1", Sx("s")), ("f0", A("float")), ("K.m", C("list", Sx("s"))), ("K.s", A("bytes")), ("z0", Sx("s"))):
                h.append(mk_call(f, [v, v], v) if f != "z0" else {"f": "z0", "args": [], "ret": v, "ys": []})
        h.append({"f": "g0", "args": [A("int")], "ret": A("NoneType"), "ys": [A("int")]})
        aband.append(h)
    add("a generator abandoned while suspended, then calls with frames of several sizes, in rounds", aband, [0], ["NONE", "DEFAULT"], [""])
    # one long run (a single flush of 1100 rows): the value type is unique around every plausible chunk boundary (multiples of
    # 50, 64, 100, 128, 250, 256, 500, 512, 1000, 1024), so a row lost or duplicated there changes an annotation
    atoms6 = [A("int"), A("float"), A("bool"), A("bytes"), A("NoneType"), Sx("s")]
    uniq = [C("tuple", *c) for n in (2, 3) for c in itertools.product(atoms6, repeat=n)]
    marks = sorted({m + d for b in (50, 64, 100, 128, 250, 256, 500, 512, 1000, 1024) for m in range(b, 1100, b) for d in (-1, 0, 1)
                    if 0 <= m + d < 1100})
    long_run, ui = [], 0
    for i in range(1100):
        if i in marks and ui < len(uniq):
            v = uniq[ui]
            ui += 1
        else:
            v = A("int")
        long_run.append({"f": "f1", "args": [v], "ret": v, "ys": []})
    add("one flush of 1100 rows whose value types are unique around every plausible chunk boundary", [long_run], [0], ["NONE"], [""])
    # records with an optional key whose value type occurs nowhere else, merged past the limit at stub time
    rv = lambda **kv: C("dict", *[P(Sx(k), v) for k, v in kv.items()])  # noqa: E731
    optv = []
    for f in ("f1", "K.m"):
        for other in (Sx("t"), A("float"), C("list", A("int"))):
            optv.append([mk_call(f, [C("list", rv(a=A("int")), rv(a=A("int"), b=other))], A("int")),
                         mk_call(f, [C("list", rv(c=A("int"), d=A("int")))], A("int"))])
            optv.append([mk_call(f, [C("list", rv(c=A("int"), d=A("int")))], A("int")),
                         mk_call(f, [C("list", rv(a=A("int")), rv(a=A("int"), b=other), rv(e=A("int")))], A("int"))])
    add("an optional key whose value type occurs nowhere else, then more keys than the limit allows", optv, [2, 3], ["NONE", "DEFAULT"], [""])
    # more than five homogeneous tuple shapes with TWO element types at one position
    tshape = lambda a, n: C("tuple", *([a] * n))  # noqa: E731
    two_elem = [[mk_call("f1", [t], t) for t in ([tshape(A("int"), n) for n in (1, 2, 3, 4)] + [tshape(Sx("s"), n) for n in ns])]
                for ns in ((1, 2), (1,), (2, 3, 4))]
    two_elem += [list(reversed(h)) for h in two_elem]
    add("more than five homogeneous tuple shapes of two element types at one position", two_elem, [0], ["DEFAULT", "RLU5", "RLU2"], [""])
    # one generator run yielding records with different keys (what is stored for ONE call must respect the limit too)
    ykeys = [[dk("a"), dk("b"), dk("c")], [dk("a", "b"), dk("c")], [dk("a"), dk("a", "b"), dk("b", "c")], [dk("x"), A("int"), dk("y"), dk("z")]]
    add("one generator run yielding records with different key sets",
        [[{"f": "g0", "args": [A("int")], "ret": A("NoneType"), "ys": ys}] for ys in ykeys] +
        [[{"f": "g0", "args": [A("int")], "ret": A("NoneType"), "ys": ys}, {"f": "g0", "args": [A("int")], "ret": A("NoneType"), "ys": list(reversed(ys))}] for ys in ykeys[:2]],
        [1, 2, 3], ["NONE", "DEFAULT"], [""])
    # string keys that cannot be written as a field of a class-syntax TypedDict
    odd = [[mk_call(f, [dk("content-type", "a")], dk("class"))] for f in ("f1", "K.m")] + \
          [[mk_call("f1", [C("list", dk("1abc"), dk("a"))], dk("a b", "b"))], [mk_call("f0", [dk("a"), dk("")], C("list", dk("def", "x-y")))]]
    add("dicts whose string keys are not Python identifiers (content-type, class, 1abc, the empty string)", odd, [0, 2, 3],
        ["NONE", "DEFAULT"], [""])
    # the very same object is an argument and the return / yield value, changed in place in between
    inplace = [[mk2("fm", dk("x"), A("int"))], [mk2("fm", dk("x", "y"), A("NoneType"))], [mk2("fm", dk("x", "y"), Sx("z"))],
               [mk2("fm", C("list", dk("a")), dk("b"))], [mk2("fm", C("list", dk("a")), A("int")), mk2("fm", dk("x"), A("NoneType"))],
               # re-keyed in place: same object, same size, same values - another key (a non-string one, another string)
               [mk2("fr", dk("timeout", "retries"), A("int"))], [mk2("fr", dk("timeout", "retries"), Sx("tries"))],
               [mk2("fr", dk("x"), A("NoneType"))], [mk2("fr", C("list", dk("x")), dk("y", "z"))],
               [mk2("fr", C("dict", P(A("int"), A("int"))), Sx("k"))],
               [mk2("fr", dk("p", "q"), A("int")), mk2("fr", dk("p", "q"), Sx("r"))],
               [{"f": "gm", "args": [dk("x", "y")], "ret": A("NoneType"), "ys": []}],
               [{"f": "gm", "args": [C("list", dk("x"))], "ret": A("NoneType"), "ys": []}]]
    add("the same object as argument and as return / yield value, changed in place in between", inplace, [0, 2, 3], ["NONE", "DEFAULT"], [""])
    # calls of ONE function whose traces differ in ONE stored column only (what it yielded / returned / one argument), the
    # differing values being records with different key sets: every call counts when keys become required or optional
    shapes2 = [(dk("id", "name"), dk("id")), (dk("id"), dk("id", "name")), (dk("a"), dk("b")), (dk("a", "b", "c"), dk("a")),
               (C("list", dk("x", "y")), C("list", dk("x"))), (dk("id"), A("int"))]
    onecol = []
    for s1, s2 in shapes2:
        onecol.append([{"f": "g0", "args": [A("int")], "ret": A("NoneType"), "ys": [s1]}, {"f": "g0", "args": [A("int")], "ret": A("NoneType"), "ys": [s2]}])
        onecol.append([{"f": "g0", "args": [A("int")], "ret": s1, "ys": [A("int")]}, {"f": "g0", "args": [A("int")], "ret": s2, "ys": [A("int")]}])
        onecol.append([mk2("f0", A("int"), s1), mk2("f0", A("int"), s2)])
        onecol.append([{"f": "f1", "args": [A("int")], "ret": s1, "ys": []}, {"f": "f1", "args": [A("int")], "ret": s2, "ys": []}])
    add("two calls of one function that differ in one stored column only, by records with different key sets", onecol, [0, 3], ["NONE"], [""])
    add("a generator abandoned after its first value, the same function called again at once with an argument of another type",
        [[{"f": "g0_abandon_then", "args": [x, y], "ret": A("NoneType"), "ys": [A("int")]}] + extra
         for x, y in ((A("int"), Sx("s")), (Sx("s"), A("int")), (C("list", A("int")), A("float")), (A("float"), dk("k")))
         for extra in ([], [mk2("f0", A("int"), A("int"))])], [0], ["NONE"], [""])
    n0 = len(cases)
    # (C06 only: a trace that begins in the middle of a call says nothing about the values seen before - soundness and
    # tightness have no verdict for it - but the limit in force binds it all the same)
    for a, ysv in () if pid != "C06" else ((dk("x", "y"), [dk("p"), dk("p", "q")]), (A("int"), [dk("p"), A("int")]), (C("list", dk("x")), [dk("x", "y", "z")]),
                   (dk("x"), [A("int"), dk("y")])):
        for k in (0, 1):
            for extra in ([], [mk2("f0", dk("m"), A("int"))]):
                cases.append({"type": "sound", "calls": [{"f": "g0", "args": [a], "ret": A("NoneType"), "ys": ysv}] + extra, "k": k, "rw": "NONE",
                              "flag": "", "span_k1": 5})
    plan.append({"family": "a generator started in one tracing block (limit 5) and finished in the next (the case's limit)", "cases": len(cases) - n0})
    ypool = [A("int"), Sx("s"), A("NoneType"), C("list", A("int")), C("tuple", Sx("s"), A("float")), absmodel.T("classobj", "mtfx.shapes.A"),
             A("mtfx.shapes.A"), C("set", A("int")), C("dict", P(A("int"), Sx("s"))), A("float")]
    add("one generator run yielding every ordered pair of 10 shapes (a generic first, one of its parameters later, ...)",
        [[{"f": "g0", "args": [A("int")], "ret": A("NoneType"), "ys": [x, y]}] for x in ypool for y in ypool if x is not y],
        [0], ["NONE"], [""])
    add("every function kind x random values x every rewriter x k",
        [[mk_call(f, rng.sample(pool, 3), rng.choice(pool)) for _ in range(rng.randint(1, 3))]
         for f in FUNCS for _ in range(4 if q else 60)], [0, 3] if q else [0, 1, 2, 3, 10], RWS if not q else ["DEFAULT", "REC", "RLU2", "MSCB"], [""])
    add("histories of <= 4 calls over all functions, every CLI flag",
        [[mk_call(rng.choice(FUNCS), rng.sample(pool, 3), rng.choice(pool)) for _ in range(rng.randint(2, 4))]
         for _ in range(60 if q else 3000)], [0, 3], ["DEFAULT"], FLAGS)
    add("many different classes at one position (large unions)",
        [[mk_call("f0", [absmodel.T("atom", c), NONE], absmodel.T("atom", c)) for c in rng.sample(
            ["int", "float", "bool", "NoneType", "bytes", "mtfx.shapes.A", "mtfx.shapes.B", "mtfx.shapes.C", "mtfx.shapes.D",
             "mtfx.shapes.E", "mtfx.shapes.X1", "mtfx.shapes.X2", "mtfx.shapes.Y1", "mtfx.shapes.Y2", "mtfx.shapes.MyList"],
            rng.randint(3, 8))] for _ in range(40 if q else 1000)], [0], ["DEFAULT", "RLU2", "MSCB", "RLU5"], [""])
    # records that each fit the limit while their merge does not, under every CLI flag and rewriter (the limit binds the stub
    # whatever else is asked for)
    over = [[mk2("f0", dk("a", "b"), A("int")), mk2("f0", dk("a", "c"), A("int")), mk2("f0", dk("a", "d"), A("int"))],
            [mk_call("f1", [C("list", dk("a", "b"))], dk("x")), mk_call("f1", [C("list", dk("c", "d"))], dk("y", "z", "w"))],
            [{"f": "g0", "args": [A("int")], "ret": A("NoneType"), "ys": [dk("a", "b"), dk("c")]}, {"f": "g0", "args": [A("int")], "ret": A("NoneType"), "ys": [dk("d", "e")]}]]
    add("records that fit the limit one by one and exceed it merged, every CLI flag", over, [2, 3], ["DEFAULT", "NONE"], FLAGS)
    # None observed next to more alternatives than a union may have - alternatives that have a common base class, or are
    # homogeneous tuples of several lengths - at a parameter WITHOUT a None default, as a return value and as a yielded value
    fam6 = [A("mtfx.shapes.A"), A("mtfx.shapes.B"), A("mtfx.shapes.C"), A("mtfx.shapes.D"), A("mtfx.shapes.B2"), A("mtfx.shapes.B3")]
    tup6 = [C("tuple", *([A("int")] * n)) for n in range(1, 7)]
    for alts in (fam6, tup6, fam6[:5] + [A("NoneType")], tup6[:5] + [C("tuple")]):
        full = alts + [A("NoneType")]
        for rot in range(len(full)):
            seq = full[rot:] + full[:rot]
            add("None next to more alternatives than a union may have (common base / homogeneous tuples), rotation %d" % rot,
                [[mk_call("f0", [x, A("int")], x) for x in seq], [{"f": "g0", "args": [A("int")], "ret": A("NoneType"), "ys": seq}]],
                [0], ["DEFAULT", "RLU5", "RLU2"], [""])
    # application classes NAMED like builtins, hidden builtin types or typing constructs (a "not given" sentinel class called
    # NoneType, a project's own frozenset / Warning / List), next to the real thing at the same position
    # (classes named like TYPING names collide with the stub's own `from typing import ...`: C11's recorded finding, not repeated here)
    look = ["mtfx.lookalikes.NoneType", "mtfx.lookalikes.frozenset", "mtfx.lookalikes.Warning", "mtfx.lookalikes.TimeoutError",
            "mtfx.shapes.AnyProxy"]       # (and a class deriving from typing.Any)
    real = [A("NoneType"), A("int"), C("list", A("int")), C("tuple", A("int")), A("float")]
    add("application classes named like (hidden) builtins and typing names, next to the real thing",
        [[mk_call("f0", [A(c), r1], A(c)), mk_call("f0", [r2, A(c)], r2)] for c in look for r1 in real[:3] for r2 in real[:2]]
        + [[mk_call("g0", [A("int"), A(c), r1], A(c))] for c in look for r1 in real[:2]],
        [0], ["NONE", "DEFAULT"], [""])
    for i, c in enumerate(cases):
        c["tid"] = i + 1
        if i % 6 == 1 and not c["flag"]:
            c["late_config"] = True      # the stub command reads its settings from a config that is only final inside cli_context
        if i % 4 == 2 and len(c["calls"]) > 1:
            c["backdate"] = True
    return cases, plan


def gen_same(tier, seed, env_text):
    rng = random.Random(seed)
    U = lambda n: universe.export("MTInferExport", n, ["MTValues", "MTUniverse"], env_text)  # noqa: E731
    small1, wide = U("small1"), U("wide")
    pool = small1 + wide[:20]
    cases = []
    q = tier == "quick"
    crossed = ["mtfx.shapes.X1", "mtfx.shapes.X2", "mtfx.shapes.X3", "mtfx.shapes.Y1", "mtfx.shapes.Y2", "mtfx.shapes.Y3"]

    def variants(n, nv):
        out = [{"order": list(range(n)), "split": [], "seed": 0}]
        for j in range(nv - 1):
            order = list(range(n))
            rng.shuffle(order)
            if j % 2 == 0:
                order += [rng.randrange(n) for _ in range(rng.randint(1, 3))]   # duplicated rows
            out.append({"order": order, "split": sorted(rng.sample(range(1, max(2, len(order))), min(len(order) - 1, rng.randint(0, 2)))) if len(order) > 1 else [],
                        "seed": rng.choice([1, 2, 3, 7, 11])})
        # runs on different days: every row its own batch, each batch on a random one of four days
        order = list(range(n))
        rng.shuffle(order)
        out.append({"order": order, "split": list(range(1, n)), "days": [rng.randrange(4) for _ in range(n)], "seed": 5})
        # many duplicates of one trace recorded last, with a query limit above the number of distinct traces
        out.append({"order": list(range(n)) + [rng.randrange(n)] * 90, "split": [n], "limit": 40, "seed": 6})
        # ... recorded FIRST; and recorded on a later day than everything else
        out.append({"order": [rng.randrange(n)] * 90 + list(range(n)), "split": [90], "limit": 40, "seed": 8})
        out.append({"order": list(range(n)) + [rng.randrange(n)] * 90, "split": [n], "days": [3, 0], "limit": 40, "seed": 9})
        return out
    for g in range(30 if q else 1500):
        n = rng.randint(2, 4)
        fs = rng.sample(["f0", "f1", "K.m", "g0"], 2)
        calls = []
        for _ in range(n):
            f = rng.choice(fs)
            vals = rng.sample(pool, 3)
            c = {"f": f, "args": vals[:2] if f == "f0" else vals[:1], "ret": rng.choice(pool), "ys": vals[1:3] if f == "g0" else []}
            calls.append(c)
        cases.append({"type": "same", "calls": calls, "k": rng.choice([0, 3]), "rw": rng.choice(["DEFAULT", "NONE"]),
                      "variants": variants(n, 4 if q else 6), "family": "random trace sets"})
    for g in range(6 if q else 100):    # crossed multiple inheritance: > 5 classes with two incomparable common bases
        cl = rng.sample(crossed, 6)
        calls = [{"f": "f1", "args": [absmodel.T("atom", c)], "ret": NONE, "ys": []} for c in cl]
        cases.append({"type": "same", "calls": calls, "k": 0, "rw": "DEFAULT", "variants": variants(6, 4 if q else 8),
                      "family": "crossed multiple inheritance"})
    tups = [absmodel.T("tuple", "", [absmodel.T("atom", "int")] * n) for n in range(0, 7)]
    for g in range(6 if q else 60):     # more than five homogeneous tuple shapes, the empty tuple among them
        ts = [tups[0]] + rng.sample(tups[1:], 5)
        calls = [{"f": "f1", "args": [t], "ret": NONE, "ys": []} for t in ts]
        cases.append({"type": "same", "calls": calls, "k": 0, "rw": "DEFAULT", "variants": variants(6, 6 if q else 10),
                      "family": "six tuple shapes incl. the empty tuple"})
    d1 = absmodel.T("dict", "", [absmodel.T("pair", "", [absmodel.T("str", "a"), absmodel.T("atom", "int")])])
    d2 = absmodel.T("dict", "", [absmodel.T("pair", "", [absmodel.T("str", "b"), absmodel.T("str", "s")])])
    for g in range(4 if q else 40):     # two functions sharing a parameter name with different TypedDict shapes
        calls = [{"f": "f0", "args": [d1, NONE], "ret": NONE, "ys": []}, {"f": "K.m", "args": [d2], "ret": NONE, "ys": []},
                 {"f": "K.c", "args": [d1], "ret": d2, "ys": []}]
        cases.append({"type": "same", "calls": calls, "k": 3, "rw": "NONE", "variants": variants(3, 4 if q else 8),
                      "family": "shared parameter name, different TypedDicts"})
        # ... the same KEYS with other value types (two classes with one header and one set of field names)
        d1s = absmodel.T("dict", "", [absmodel.T("pair", "", [absmodel.T("str", "a"), absmodel.T("str", "s")])])
        calls2 = [{"f": "f0", "args": [d1, NONE], "ret": NONE, "ys": []}, {"f": "K.m", "args": [d1s], "ret": NONE, "ys": []}]
        vs2 = variants(2, 4 if q else 8) + [{"order": [0, 1], "split": [1], "days": [2, 0], "seed": 3}, {"order": [0, 1], "split": [1], "days": [0, 2], "seed": 4},
                                            {"order": [1, 0], "split": [1], "days": [2, 0], "seed": 5}]
        cases.append({"type": "same", "calls": calls2, "k": 3, "rw": "NONE", "variants": vs2,
                      "family": "shared parameter name, TypedDicts with the same keys and other value types"})
    # traces of one function that differ in ONE stored column only (yield type / return type / one argument)
    for g in range(4 if q else 30):
        a, b = rng.sample([absmodel.T("atom", "int"), absmodel.T("str", "s"), NONE, absmodel.T("atom", "float"), absmodel.T("list", "", [absmodel.T("atom", "int")])], 2)
        sets = [[{"f": "g0", "args": [NONE], "ret": NONE, "ys": [a]}, {"f": "g0", "args": [NONE], "ret": NONE, "ys": [b]}],
                [{"f": "g0", "args": [NONE], "ret": a, "ys": [NONE]}, {"f": "g0", "args": [NONE], "ret": b, "ys": [NONE]}],
                [{"f": "f0", "args": [NONE, a], "ret": NONE, "ys": []}, {"f": "f0", "args": [NONE, b], "ret": NONE, "ys": []}]]
        for calls in sets:
            vs = [{"order": [0, 1], "split": [], "seed": 0}, {"order": [1, 0], "split": [], "seed": 1}, {"order": [0, 1], "split": [1], "days": [2, 0], "seed": 2},
                  {"order": [1, 0], "split": [1], "days": [0, 3], "seed": 3}, {"order": [0, 1, 0, 1], "split": [2], "seed": 4}]
            cases.append({"type": "same", "calls": calls, "k": 0, "rw": "NONE", "variants": vs, "family": "two traces that differ in one stored column only"})
    # a stale row (its argument class was removed) among the decodable rows of the same function, recorded on different days
    for g in range(3 if q else 20):
        calls = [{"f": "f1", "args": [absmodel.T("atom", "int")], "ret": NONE, "ys": []}, {"f": "f1", "args": [absmodel.T("str", "s")], "ret": NONE, "ys": []},
                 {"f": "K.m", "args": [absmodel.T("atom", "float")], "ret": NONE, "ys": []}]
        vs = [{"order": [0, 1, 2], "split": [1, 2], "days": [3, 2, 1], "seed": 0}]
        for st in (0, 1, 2, 3, 5):
            vs.append({"order": [0, 1, 2], "split": [1, 2], "days": [4, 2, 0], "stale": st, "seed": st})
        vs.append({"order": [2, 1, 0], "split": [1], "days": [0, 4], "stale": 2, "seed": 7})
        cases.append({"type": "same", "calls": calls, "k": 0, "rw": "NONE", "variants": vs, "family": "a stale row among the decodable rows of one function"})
    # two functions whose generated TypedDict classes need different imports (List, a class of another module) in their fields
    AT = absmodel.T
    dl = AT("dict", "", [AT("pair", "", [AT("str", "items"), AT("list", "", [AT("atom", "int")])])])
    dc = AT("dict", "", [AT("pair", "", [AT("str", "owner"), AT("atom", "mtfx.shapes.A")])])
    dt = AT("dict", "", [AT("pair", "", [AT("str", "pair"), AT("tuple", "", [AT("atom", "int"), AT("str", "s")])])])
    for g in range(3 if q else 20):
        calls = [{"f": "f1", "args": [dl], "ret": NONE, "ys": []}, {"f": "K.m", "args": [dc], "ret": NONE, "ys": []}, {"f": "K.s", "args": [dt], "ret": NONE, "ys": []}]
        cases.append({"type": "same", "calls": calls, "k": 3, "rw": "NONE", "variants": variants(3, 6 if q else 8),
                      "family": "functions whose generated TypedDict classes need different imports"})
    # classes of a package, of its own submodule and of an equally named top-level module in one signature, under many hash
    # seeds: which module prefix is stripped first must not depend on the process
    pk = [AT("atom", "zpkg.PkgTop"), AT("atom", "zpkg.zutil.B"), AT("atom", "zutil.zutil"), AT("atom", "zfoo.Baz"), AT("atom", "barzfoo.Qux"),
          AT("atom", "zpkg.zfoo.K")]
    for g in range(2 if q else 12):
        a, b, c = rng.sample(pk[:3], 3) if g % 2 == 0 else rng.sample(pk, 3)
        calls = [{"f": "f0", "args": [a, b], "ret": c, "ys": []}, {"f": "K.m", "args": [AT("list", "", [b])], "ret": a, "ys": []}]
        vs = [{"order": [0, 1], "split": [], "seed": sd} for sd in range(1, 13)]
        cases.append({"type": "same", "calls": calls, "k": 0, "rw": "NONE", "variants": vs,
                      "family": "classes of a package, its submodule and equally named modules, twelve hash seeds"})
    # ONE function called with records of different shapes (traces that differ only inside their TypedDicts)
    d3 = absmodel.T("dict", "", [absmodel.T("pair", "", [absmodel.T("str", "a"), absmodel.T("atom", "int")]),
                                  absmodel.T("pair", "", [absmodel.T("str", "c"), absmodel.T("list", "", [absmodel.T("atom", "int")])])])
    for g in range(4 if q else 40):
        shapes3 = rng.sample([d1, d2, d3], 3)
        calls = [{"f": "f1", "args": [sh], "ret": NONE, "ys": []} for sh in shapes3] + \
                [{"f": "K.m", "args": [absmodel.T("list", "", [shapes3[0]])], "ret": shapes3[1], "ys": []},
                 {"f": "K.m", "args": [absmodel.T("list", "", [shapes3[2]])], "ret": shapes3[1], "ys": []}]
        cases.append({"type": "same", "calls": calls, "k": rng.choice([2, 3]), "rw": "NONE", "variants": variants(5, 5 if q else 8),
                      "family": "one function, records of different shapes (traces differ only inside TypedDicts)"})
    # a parameterless function returning a class of its own module next to functions taking / returning that class
    KI = absmodel.T("atom", "mtp_target.K")
    for g in range(3 if q else 30):
        calls = [{"f": "z0", "args": [], "ret": KI, "ys": []}, {"f": "f1", "args": [KI], "ret": KI, "ys": []},
                 {"f": "K.s", "args": [absmodel.T("list", "", [KI])], "ret": NONE, "ys": []}]
        cases.append({"type": "same", "calls": calls, "k": 0, "rw": rng.choice(["DEFAULT", "NONE"]), "variants": variants(3, 5 if q else 8),
                      "family": "parameterless function returning a class of its own module"})
    # one generator run yielding two kinds of empty containers and their non-empty twins, in every rotation
    I = absmodel.T("atom", "int")
    cont = lambda kind, *xs: absmodel.T(kind, "", list(xs))  # noqa: E731
    P2 = lambda k, v: absmodel.T("pair", "", [k, v])  # noqa: E731
    shapes4 = [[cont("list"), cont("set"), cont("set", I), cont("list", I)],
               [cont("dict"), cont("list"), cont("list", I), cont("dict", P2(I, I))],
               [cont("set"), cont("list"), cont("dict"), cont("list", I), cont("set", I), cont("dict", P2(I, I))]]
    for ysv in shapes4:
        for perm in ([ysv, list(reversed(ysv))] if q else list(itertools.permutations(ysv))[:24]):
            calls = [{"f": "g0", "args": [I], "ret": NONE, "ys": list(perm)}]
            vs = [{"order": [0], "split": [], "seed": sd, "ys_rot": r} for r in range(len(perm)) for sd in ((0,) if q else (0, 3))]
            cases.append({"type": "same", "calls": calls, "k": 0, "rw": "DEFAULT", "variants": vs,
                          "family": "one generator yielding empty and non-empty containers of several kinds, every rotation"})
    # one long run (a single flush of > 1000 distinct traces through one connection) against the same traces
    # recorded as several short runs
    atoms = [absmodel.T("atom", a) for a in ("int", "float", "bool", "bytes", "NoneType")] + [absmodel.T("str", "s")]
    shapes = [absmodel.T("tuple", "", list(c)) for n in (1, 2, 3, 4) for c in itertools.product(atoms, repeat=n)]
    for g in range(1 if q else 6):
        n = 1150 if q else rng.choice([520, 1010, 1530])
        vals = rng.sample(shapes, n)
        calls = [{"f": ("f1", "K.m", "K.s")[i % 3], "args": [v], "ret": NONE, "ys": []} for i, v in enumerate(vals)]
        order = list(range(n))
        vs = [{"order": order, "split": [], "seed": 0}]
        for j in range(2 if q else 3):
            o = list(order)
            rng.shuffle(o)
            vs.append({"order": o, "split": sorted(rng.sample(range(1, n), 2 + 3 * j)), "seed": j + 1})
        cases.append({"type": "same", "calls": calls, "k": 0, "rw": "NONE", "variants": vs,
                      "family": "one long run against several short runs (> 500 / > 1000 traces in one flush)"})
    plan = {}
    for c in cases:
        plan[c["family"]] = plan.get(c["family"], 0) + 1
    for i, c in enumerate(cases):
        c["tid"] = i + 1
    return cases, [{"family": k, "cases": v, "stub_processes": sum(len(c["variants"]) for c in cases if c["family"] == k)}
                   for k, v in plan.items()]


MINE = {"C01": {"EndToEndSound", "AnnotationResolves"}, "C14": {"OrderAndProcessFree", "TypedDictClassesOrderFree"},
        "C06": {"StubTDBound", "StoredTDBound", "TypedDictOnlyFromRecords"}, "C05": {"EndToEndTight"}}


def causes_of(rec):
    """Known root causes visible in this stub (labels for the findings file; the verdict is TLC's)."""
    out = []
    unres = set(rec.get("unres_sig", [])) | set(rec.get("unres_td", []))
    if {"monkeytype", "DUMMY_NAME"} & unres:
        out.append("typeddict_not_replaced_below_a_generic_the_rewriter_does_not_visit")
    if set(rec.get("unres_td", [])) - {"monkeytype", "DUMMY_NAME"}:
        out.append("typeddict_field_annotation_does_not_resolve")
    if rec.get("dup_td"):
        out.append("typeddict_class_name_hint_collision")
    return out or ["other"]


def run_pipeline(pid, tier, seed, run, replay_case=None):
    envgen.load_fixture_classes()
    env_text = envgen.mtenv_text()
    mc = None
    if replay_case is not None:
        cases, plan = [dict(replay_case, tid=1)], [{"family": "replay", "cases": 1}]
    elif pid == "C14":
        cases, plan = gen_same(tier, seed, env_text)
    else:
        cases, plan = gen_sound(tier, seed, env_text, pid)
        if pid == "C06":   # the k > 0 part of the enumeration is what matters here
            cases = [c for c in cases if c["k"] > 0 or c["tid"] % 4 == 0 or c.get("span_k1") is not None]
        if pid == "C05":   # tightness is stated for the inferred type before any rewriter runs
            cases = [c for c in cases if c["rw"] == "NONE" and not c["flag"]]
        if pid == "C01":
            devs = core.model_deviations(["Dev_RECAnyNeighbour", "Dev_RLUEmptyTupleFirst", "Dev_RLUFirstMro", "Dev_MSCBGeneric"])
            cfg = ("SPECIFICATION PSpec\nCONSTANTS\n  Ks = {0, 2}\n  MaxCalls = %d\n  Chains <- ChainsMC\n" % (2 if tier == "quick" else 3)
                   + "".join("  %s = %s\n" % (k, "TRUE" if v else "FALSE") for k, v in sorted(devs.items()))
                   + "INVARIANT EndToEndSound\nCHECK_DEADLOCK FALSE\n")
            mc = tlc.run_tlc("MTPipelineMC", cfg_text=cfg, workers=16, timeout=3600, xmx="24g", extra_files={"MTEnv.tla": env_text})
            tlc.check_ok(mc, "MTPipelineMC")
            if mc.invariant_violated:
                raise tlc.TLCFailure("MTPipelineMC: composed model violates EndToEndSound\n" + mc.out[-2000:])
    records = run_cases(cases)
    env_text = envgen.mtenv_text()
    by_tid = {r["tid"]: r for r in records}
    case_by = {c["tid"]: c for c in cases}
    drop = ("stub", "stub_other", "unres_sig", "unres_td", "dup_td")
    slim = [{k: v for k, v in r.items() if k not in drop} for r in records]
    verdicts, states, trans, wall = tlc.validate_shards("MTPipelineTrace", "MTPipelineTrace.cfg", slim, min_per_shard=50,
                                                        extra_files={"MTEnv.tla": env_text})
    mine = MINE[pid]
    for v in verdicts:
        rec, case = by_tid[v["tid"]], case_by[v["tid"]]
        for clause in v.get("viol", []):
            if clause.startswith("X:"):
                run.notes.append(clause)
                if len(run.notes) <= 5:
                    print("EXTENDED-SPEC-MISMATCH spec=MTPipelineTrace clause=%s (beyond the listed properties; not an alarm)" % clause)
                continue
            if clause not in mine:
                continue
            if pid in ("C01", "C05"):
                for cause in causes_of(rec):
                    run.violation({"clause": clause, "cause": cause}, {k: case[k] for k in case if k != "tid"})
                continue
            vio = {"clause": clause}
            if pid == "C14":
                vio["family"] = case.get("family", "?")
                vio["rw"] = case["rw"]
            run.violation(vio, {k: case[k] for k in case if k != "tid"})
    return records, cases, plan, mc, states, trans, wall


def main(pid, tier, seed, replay=None):
    core.use_repo()
    run = core.Run(pid, tier, seed)
    rc = None
    if replay:
        with open(replay) as fh:
            rc = json.load(fh)["case"]
    records, cases, plan, mc, states, trans, wall = run_pipeline(pid, tier, seed, run, rc)
    nt = {json.dumps([c["calls"], c["k"], c["rw"], c.get("flag")], sort_keys=True) for c in cases if len(c["calls"]) > 1}
    ex = records[len(records) // 2]
    cov = {
        "states": (mc.distinct if mc else 0) + states, "transitions": (mc.generated if mc else 0) + trans,
        "traces_validated_against_impl": len(records), "evaluations": len(records) if pid != "C14" else sum(len(r["obs"]) for r in records),
        "distinct_nontrivial": len(nt),
        "rule": "one trace = one workload really run under monkeytype.trace(config) into a real SQLite file and taken through the real "
                "`stub` command (C14: the same trace set through several orders / duplications / batch splits / connections, each "
                "stub generated in a separate interpreter with its own PYTHONHASHSEED); non-trivial = more than one call; distinct by "
                "(call history, k, rewriter, flag)",
        "samples": [core.trim({k: ex[k] for k in ("stub", "positions", "obs") if k in ex}, 2500)],
        "plan": plan,
        "mc": None if mc is None else {"spec": "MTPipelineMC: EndToEndSound for the composition infer -> store (set) -> shrink -> rewriter chain",
                                       "distinct_states": mc.distinct, "states_generated": mc.generated},
        "trace_validation": {"spec": "MTPipelineTrace", "tlc_states": states, "wall_s": round(wall, 1)},
        "extended_spec": {"clause": "IndexBuilderAgrees (StubIndexBuilder fed the decoded traces renders the same stub as store -> CLI, "
                                    "no rewriter)", "mismatches": len(run.notes)},
        "exhaustive": False,
    }
    return run.finish(cov)
