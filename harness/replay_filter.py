"""C17: (a) the real default_code_filter on TLC-enumerated source locations (real temporary trees with
real symlinks) and on every code object of the installed standard library / site-packages, against the
path oracle of MTFilter; (b) custom filters over random subsets of a scripted program's functions
(through the tracer replay); (c) `monkeytype run` of generated scripts: nothing from __main__ is stored."""
import concurrent.futures
import importlib
import io
import json
import os
import pathlib
import pkgutil
import random
import shutil
import subprocess
import sys
import sysconfig
import types

from . import core, tlc, universe


def comps(p):
    return [c for c in str(p).split(os.sep) if c]


def admit_record(tid, code_filename, module, allow, verdict, roots):
    if not code_filename:
        kind = "empty"
    elif code_filename.startswith("<"):
        kind = "synthetic"
    else:
        kind = "real"
    resolved = os.path.realpath(code_filename) if kind == "real" else ""
    stem = os.path.splitext(os.path.basename(resolved))[0] if kind == "real" else ""
    return {"tid": tid, "ev": "Admit", "kind": kind, "resolved": comps(resolved), "roots": [comps(r) for r in roots],
            "module": module.split(".") if module else [], "allow": list(allow), "allowset": bool(allow),
            "stem": stem, "verdict": bool(verdict)}


def run_enumerated(cases):
    """TLC-enumerated locations, in a real temporary tree; LIB_PATHS points at three temporary roots."""
    core.use_repo()
    import monkeytype.config as cfg
    base = tlc.scratch_dir("mtverif_fs_")
    real_lib = cfg.LIB_PATHS
    out = []
    try:
        roots = [os.path.join(base, "lib", "r%d" % i) for i in (1, 2, 3)]
        for r in roots:
            os.makedirs(r)
        outside = os.path.join(base, "proj")
        named = os.path.join(base, "home", "foo")          # a base directory named like an allowed module
        os.makedirs(outside)
        os.makedirs(named)
        os.symlink(roots[0], os.path.join(base, "link_in"))                 # outside -> into root1
        os.makedirs(os.path.join(base, "elsewhere"))
        os.symlink(os.path.join(base, "elsewhere"), os.path.join(roots[1], "link_out"))   # under root2 -> outside
        cfg.LIB_PATHS = tuple(pathlib.Path(r).resolve() for r in roots)
        rroots = [str(p) for p in cfg.LIB_PATHS]
        for i, c in enumerate(cases):
            allow = c["allow"]
            if allow or c["allowset"]:
                os.environ["MONKEYTYPE_TRACE_MODULES"] = ",".join(allow)     # may be the empty string: set, nothing listed
            else:
                os.environ.pop("MONKEYTYPE_TRACE_MODULES", None)
            cfg.default_code_filter.cache_clear()
            if c["kind"] != "real":
                fn = {"string": "<string>", "frozen": "<frozen importlib._bootstrap>", "empty": "", "stdin": "<stdin>"}[c["kind"]]
                module = "x"
            else:
                top = {"outside": outside, "root1": roots[0], "root2": roots[1], "root3": roots[2],
                       "link_into_root": os.path.join(base, "link_in"),
                       "link_out_of_root": os.path.join(roots[1], "link_out"), "outside_named_base": named,
                       "root_prefix_sibling": roots[0] + "-extra"}[c["place"]]
                d = os.path.join(top, *c["dirs"])
                os.makedirs(d, exist_ok=True)
                fn = os.path.join(d, c["stem"] + ".py")
                if not os.path.exists(fn):
                    with open(fn, "w") as fh:
                        fh.write("def f():\n    return 1\n")
                parts = list(c["dirs"]) + ([] if c["stem"] == "__init__" else [c["stem"]])
                module = ".".join(parts) or "__init__"
            code = compile("def f():\n    return 1\n", fn, "exec")
            verdict = cfg.default_code_filter(code)
            out.append(admit_record(i + 1, fn, module, allow, verdict, rroots))
            out[-1]["allowset"] = bool(c["allowset"])
            out[-1]["case"] = c
    finally:
        cfg.LIB_PATHS = real_lib
        os.environ.pop("MONKEYTYPE_TRACE_MODULES", None)
        cfg.default_code_filter.cache_clear()
        shutil.rmtree(base, ignore_errors=True)
    return out


def iter_code(code, seen):
    if id(code) in seen:
        return
    seen.add(id(code))
    yield code
    for c in code.co_consts:
        if isinstance(c, types.CodeType):
            yield from iter_code(c, seen)


def sweep_installed(tid0, limit_modules, allow_lists, seed):
    """Every code object reachable from importable stdlib / site-packages modules (already importable
    without side effects: we only read code objects of modules that import cleanly)."""
    core.use_repo()
    import monkeytype.config as cfg
    # the oracle's library roots come from the interpreter, not from monkeytype.config
    roots = sorted({os.path.realpath(p) for p in (sysconfig.get_path(n) for n in ("stdlib", "purelib", "platlib")) if p})
    names = sorted({m.name for m in pkgutil.iter_modules() if not m.name.startswith("_")})
    rng = random.Random(seed)
    rng.shuffle(names)
    skip = {"antigravity", "this", "idlelib", "turtledemo", "tkinter", "turtle", "pip", "setuptools", "test", "lib2to3",
            "monkeytype", "pytest", "_pytest", "sphinx", "IPython", "twine", "keyring"}
    recs, nmods = [], 0
    for name in names:
        if name in skip or nmods >= limit_modules:
            continue
        spec = importlib.util.find_spec(name)
        if spec is None or not spec.origin or not spec.origin.endswith(".py"):
            continue
        if not any(os.path.realpath(spec.origin).startswith(r) for r in roots):
            continue
        files = [(name, spec.origin)]
        if spec.submodule_search_locations:
            for loc in spec.submodule_search_locations:
                for root, _, fs in os.walk(loc):
                    for f in fs:
                        if f.endswith(".py"):
                            rel = os.path.relpath(os.path.join(root, f), loc)
                            mod = name + "." + rel[:-3].replace(os.sep, ".")
                            files.append((mod[:-9] if mod.endswith(".__init__") else mod, os.path.join(root, f)))
        nmods += 1
        for mod, path in files[:60]:
            try:
                with open(path, "rb") as fh:
                    top = compile(fh.read(), path, "exec")
            except Exception:
                continue
            codes = list(iter_code(top, set()))
            for allow in allow_lists:
                if allow:
                    os.environ["MONKEYTYPE_TRACE_MODULES"] = ",".join(allow)
                else:
                    os.environ.pop("MONKEYTYPE_TRACE_MODULES", None)
                cfg.default_code_filter.cache_clear()
                verdicts = {cfg.default_code_filter(c) for c in codes}
                for v in verdicts:
                    recs.append(admit_record(tid0 + len(recs), path, mod, allow, v, roots))
                    recs[-1]["ncode"] = len(codes)
    os.environ.pop("MONKEYTYPE_TRACE_MODULES", None)
    cfg.default_code_filter.cache_clear()
    return recs, nmods


CONFIG_SRC = '''import os
from monkeytype.config import DefaultConfig
class C(DefaultConfig):
    pass
CONFIG = C()
'''

USER_MOD = '''def used(a):
    return a


def also_used(a, b=1):
    return [a]


def unused(a):
    return a


class K:
    def meth(self, x):
        return x


def calls_back(n):
    """A module of the program imports the SCRIPT under its real name and calls into it: that function object belongs to
    module `script`, not to `__main__`, although both were made from one file."""
    import script
    return script.helper(n)
'''

PKG_MAIN = '''def pmain(x):
    return parse(x)


def parse(y):
    return [y]
'''

SCRIPT = '''import {user} as U
from {user}_pkg.__main__ import pmain


def main_func(x):
    return U.used(x)


class InMain:
    def m(self, y):
        return U.also_used(y)


def helper(n):
    return str(n)


if __name__ == "__main__":
    main_func(1)
    InMain().m("s")
    pmain(7)
    U.K().meth(2.5)
    (lambda z: z)(3)
    helper(0)
    U.calls_back(4)
'''


def vendored_copies(tid0, nfiles, seed):
    """One program holding an installed library file AND a byte-identical copy of it in a user directory (a vendored
    package): within ONE lifetime of the filter's cache, in both orders of first use, every code object of the
    installed file must be rejected and every code object of the copy admitted."""
    core.use_repo()
    import monkeytype.config as cfg
    roots = [str(p) for p in cfg.LIB_PATHS]
    os.environ.pop("MONKEYTYPE_TRACE_MODULES", None)
    rng = random.Random(seed)
    base = tlc.scratch_dir("mtverif_vendor_")
    recs = []
    try:
        import json as _json
        import email as _email
        cands = []
        for pkg in (_json, _email):
            d = os.path.dirname(pkg.__file__)
            cands += [(pkg.__name__ + "." + f[:-3], os.path.join(d, f)) for f in sorted(os.listdir(d)) if f.endswith(".py")]
        try:
            import libcst
            d = os.path.dirname(libcst.__file__)
            cands += [("libcst." + f[:-3], os.path.join(d, f)) for f in sorted(os.listdir(d)) if f.endswith(".py")][:10]
        except ImportError:
            pass
        rng.shuffle(cands)
        for mod, path in cands[:nfiles]:
            with open(path, "rb") as fh:
                src = fh.read()
            vpath = os.path.join(base, "vendored", *mod.split(".")) + ".py"
            os.makedirs(os.path.dirname(vpath), exist_ok=True)
            with open(vpath, "wb") as fh:
                fh.write(src)
            for order in ("installed_first", "copy_first"):
                inst = list(iter_code(compile(src, path, "exec"), set()))
                copy = list(iter_code(compile(src, vpath, "exec"), set()))
                seq = [(path, inst), (vpath, copy)]
                if order == "copy_first":
                    seq.reverse()
                cfg.default_code_filter.cache_clear()
                for pth, codes in seq:
                    for v in sorted({cfg.default_code_filter(c) for c in codes}):
                        recs.append(admit_record(tid0 + len(recs), pth, mod, [], v, roots))
                        recs[-1]["case"] = {"place": "vendored_copy_of_installed_file", "order": order,
                                            "which": "installed" if pth == path else "copy", "module": mod}
    finally:
        cfg.default_code_filter.cache_clear()
        shutil.rmtree(base, ignore_errors=True)
    return recs


def run_main_scenarios(tid0, n, seed):
    """`monkeytype run script.py`: functions of __main__ are traced but must never be stored."""
    recs = []
    for j in range(n):
        d = tlc.scratch_dir("mtverif_run_")
        try:
            user = "usermod%d" % j
            with open(os.path.join(d, user + ".py"), "w") as fh:
                fh.write(USER_MOD)
            os.makedirs(os.path.join(d, user + "_pkg"))
            open(os.path.join(d, user + "_pkg", "__init__.py"), "w").close()
            with open(os.path.join(d, user + "_pkg", "__main__.py"), "w") as fh:     # a module merely NAMED ...__main__
                fh.write(PKG_MAIN)
            with open(os.path.join(d, "script.py"), "w") as fh:
                fh.write(SCRIPT.format(user=user))
            env = dict(os.environ, MT_DB_PATH=os.path.join(d, "db.sqlite3"), PYTHONPATH=core.REPO + os.pathsep + d)
            env.pop("MONKEYTYPE_TRACE_MODULES", None)
            mode = ["run", "script.py"] if j % 2 == 0 else ["run", "-m", "script"]
            p = subprocess.run([sys.executable, "-m", "monkeytype"] + mode, cwd=d, env=env, capture_output=True, text=True,
                               timeout=120)
            if p.returncode != 0:
                raise RuntimeError("monkeytype run failed: %s" % p.stderr[-500:])
            import sqlite3
            c = sqlite3.connect(env["MT_DB_PATH"])
            rows = c.execute("SELECT module, qualname FROM monkeytype_call_traces").fetchall()
            c.close()
            recs.append({"tid": tid0 + j, "ev": "Run", "modules": sorted({r[0] for r in rows}),
                         "expected": sorted(["%s.used" % user, "%s.also_used" % user, "%s.K.meth" % user,
                                             "%s_pkg.__main__.pmain" % user, "%s_pkg.__main__.parse" % user,
                                             "%s.calls_back" % user, "script.helper"]),
                         "got": sorted({"%s.%s" % r for r in rows}), "mode": " ".join(mode)})
        finally:
            shutil.rmtree(d, ignore_errors=True)
    return recs


def user_site_scenarios(tid0):
    """The per-user site-packages directory (`pip install --user`; site.getusersitepackages(), asked of the interpreter, not of
    monkeytype.config): third-party code there is site-packages like any other.  The oracle's roots include it; the real
    filter judges code objects compiled with file names below it, next to a user file and an installed one."""
    core.use_repo()
    import site
    import monkeytype.config as cfg
    user_site = os.path.realpath(site.getusersitepackages())
    roots = sorted({os.path.realpath(p) for p in (sysconfig.get_path(n) for n in ("stdlib", "purelib", "platlib")) if p} | {user_site})
    os.environ.pop("MONKEYTYPE_TRACE_MODULES", None)
    recs = []
    names = [(os.path.join(user_site, "somepkg", "mod.py"), "somepkg.mod", "user_site_packages"),
             (os.path.join(user_site, "single.py"), "single", "user_site_packages"),
             (os.path.join(os.path.dirname(user_site), "not_site", "x.py"), "x", "next_to_user_site_packages"),
             (os.path.join(sysconfig.get_path("purelib"), "libcst", "__init__.py"), "libcst", "installed"),
             (os.path.join(os.path.expanduser("~"), "project", "app.py"), "app", "outside")]
    cfg.default_code_filter.cache_clear()
    for fn, mod, place in names:
        v = cfg.default_code_filter(compile("def f():\n    return 1\n", fn, "exec"))
        recs.append(admit_record(tid0 + len(recs), fn, mod, [], v, roots))
        recs[-1]["allowset"] = False
        recs[-1]["case"] = {"place": place, "which": fn}
    cfg.default_code_filter.cache_clear()
    return recs


def relative_name_scenarios(tid0):
    """Code objects whose co_filename is a BARE RELATIVE name of a real file (runpy.run_path("plugin.py"), compile(src,
    "tool.py")) next to code compiled from strings ("<string>", "<frozen ...>") in one cache lifetime, in both orders: the
    real file is in scope, the synthetic names are not."""
    core.use_repo()
    import monkeytype.config as cfg
    roots = sorted({os.path.realpath(p) for p in (sysconfig.get_path(n) for n in ("stdlib", "purelib", "platlib")) if p})
    d = tlc.scratch_dir("mtverif_rel_")
    recs, cwd = [], os.getcwd()
    try:
        os.makedirs(os.path.join(d, "sub"))
        for rel in ("plugin.py", os.path.join("sub", "tool.py")):
            with open(os.path.join(d, rel), "w") as fh:
                fh.write("def f():\n    return 1\n")
        os.chdir(d)
        os.environ.pop("MONKEYTYPE_TRACE_MODULES", None)
        names = ["plugin.py", os.path.join("sub", "tool.py"), "<string>", "<frozen importlib._bootstrap>", "<stdin>"]
        orders = [names, list(reversed(names)), [names[2], names[0], names[3], names[1], names[4]]]
        for order in orders:
            cfg.default_code_filter.cache_clear()
            for fn in order:
                code = compile("def f():\n    return 1\n", fn, "exec")
                v = cfg.default_code_filter(code)
                recs.append(admit_record(tid0 + len(recs), fn, os.path.splitext(os.path.basename(fn))[0], [], v, roots))
                recs[-1]["allowset"] = False
                recs[-1]["case"] = {"place": "bare_relative_file_name_next_to_synthetic_names", "which": fn, "order": order.index(fn)}
    finally:
        os.chdir(cwd)
        cfg.default_code_filter.cache_clear()
        shutil.rmtree(d, ignore_errors=True)
    return recs


LINKED_SCRIPT = '''
import json, os, sys, sysconfig, textwrap
import mypy_extensions
import monkeytype.config as cfg
user = os.environ["MTV_USER_FILE"]
out = []
for label, code in (("stdlib", textwrap.dedent.__code__), ("site", mypy_extensions.trait.__code__),
                    ("user", compile("def f():\\n    return 1\\n", user, "exec"))):
    out.append({"label": label, "filename": code.co_filename, "verdict": bool(cfg.default_code_filter(code))})
print(json.dumps({"obs": out, "roots": [sysconfig.get_path(n) for n in ("stdlib", "purelib", "platlib")]}))
'''


def symlinked_prefix_scenarios(tid0):
    """The interpreter reached through a SYMLINKED prefix (a venv under `current -> releases/N`, /home -> /data/home):
    sysconfig reports the library directories through the link, imported code objects carry file names through the
    link; the standard library and site-packages are still the standard library and site-packages."""
    d = tlc.scratch_dir("mtverif_lnk_")
    recs = []
    try:
        link = os.path.join(d, "current")
        os.symlink(sys.prefix, link)
        interp = os.path.join(link, "bin", os.path.basename(sys.executable))
        if not os.path.exists(interp):
            return recs
        os.makedirs(os.path.join(d, "proj"))
        env = dict(os.environ, PYTHONPATH=core.REPO, MTV_USER_FILE=os.path.join(d, "proj", "u.py"))
        env.pop("MONKEYTYPE_TRACE_MODULES", None)
        p = subprocess.run([interp, "-c", LINKED_SCRIPT], env=env, capture_output=True, text=True, timeout=300)
        if p.returncode != 0:
            raise RuntimeError("linked interpreter failed: %s" % p.stderr[-400:])
        res = json.loads(p.stdout.strip().splitlines()[-1])
        roots = sorted({os.path.realpath(r) for r in res["roots"] if r})
        for j, o in enumerate(res["obs"]):
            recs.append(admit_record(tid0 + j, o["filename"], o["label"], [], o["verdict"], roots))
            recs[-1]["allowset"] = False
            recs[-1]["case"] = {"place": "interpreter_prefix_through_symlink", "which": o["label"]}
    finally:
        shutil.rmtree(d, ignore_errors=True)
    return recs


def dynamic_code_scenarios(tid0, seed, rounds):
    """One tracing session in which functions are created at run time, called and dropped: a code object the filter
    REJECTS is freed before a code object it ADMITS is created (and the other way round), so that addresses of dead code
    objects are reused by live ones.  Every admitted call must be logged, no rejected one."""
    import gc
    core.use_repo()
    import monkeytype.tracing as mtt
    recs = []
    body = "def fn(a):\n    return a\n"
    for variant, (first, second) in enumerate((("rej", "acc"), ("acc", "rej"), ("rej", "rej_acc"))):
        got, expected = [], []

        class L:
            def log(self, t):
                got.append(t.func.__module__)

            def flush(self):
                pass
        flt = lambda code: code.co_filename.endswith("_acc.py")  # noqa: E731
        with mtt.trace_calls(L(), 0, flt):
            for i in range(rounds):
                for which in (first, second):
                    kinds = ["rej", "acc"] if which == "rej_acc" else [which]
                    for kd in kinds:
                        ns = {"__name__": "dyn_%s_%d" % (kd, i)}
                        exec(compile(body, "/nonexistent/dyn_%d_%s.py" % (i, kd), "exec"), ns)
                        ns["fn"](i)
                        if kd == "acc":
                            expected.append(ns["__name__"])
                        del ns
                        gc.collect()
        recs.append({"tid": tid0 + variant, "ev": "Run", "modules": [], "expected": sorted(expected), "got": sorted(got),
                     "mode": "dynamic code objects, %s then %s, %d rounds" % (first, second, rounds)})
    return recs


def custom_filter_scenarios(seed, n, tier):
    """(b) custom filters = random subsets of the scripted program's functions, through the tracer replay."""
    from . import replay_tracer as rt
    devs = core.model_deviations(rt.DEV_NAMES)
    beh, _ = rt.tlc_behaviours(0, 10, 4, devs, simulate="num=%d" % n, seed=seed + 17, throw=False)
    rng = random.Random(seed)
    beh = rng.sample(beh, min(n, len(beh)))
    # qualified names: Kls.m_over and Sub.m_over share file and short name but get independent verdicts
    names = ["f_mod", "f_posonly", "f_star", "f_pos_star", "f_kwonly", "f_wrapped", "g_mod", "c_mod", "Kls.m_inst", "Kls.m_over", "Sub.m_over",
             "Kls.m_cls", "Kls.m_static", "Kls.prop", "Kls.g_meth", "Kls.c_meth", "h_hidden", "_make_nested.<locals>.rec_inner",
             "_make_nested.<locals>.rec_gen"]
    scs = []
    for i, b in enumerate(beh):
        admit = sorted(rng.sample(names, rng.randint(0, len(names))))
        scs.append({"tid": i + 1, "hist": b["hist"], "rate": 0, "k": 0, "seed": seed * 31 + i, "admit": admit, "twin_rejected": i % 2 == 1, "falsy_filter": i % 5 == 2,
                    "filter_values": [None, "re", "count", "text", "seq"][i % 5] if i % 5 != 2 else None, "nested": i % 7 == 3})
    # directed: two code objects of one file with the same short name, called in one session in both orders, the filter
    # admitting exactly one of them (by qualified name)
    call = lambda i: [{"op": "Call", "f": "F", "id": i, "v": "int", "catch": True, "draw": 0},  # noqa: E731
                      {"op": "Return", "f": "expr", "id": i, "v": "int", "catch": True, "draw": 0}]
    for first, second in (("Kls.m_over(super)", "Sub.m_over"), ("Sub.m_over", "Kls.m_over(super)")):
        for admit in (["Kls.m_over"], ["Sub.m_over"]):
            scs.append({"tid": len(scs) + 1, "hist": call(1) + call(2) + call(3), "rate": 0, "k": 0, "seed": seed,
                        "admit": admit, "force": {"1": first, "2": second, "3": first}})
    return scs


def main(pid, tier, seed, replay=None):
    core.use_repo()
    run = core.Run(pid, tier, seed)
    q = tier == "quick"
    plan = []
    text = "------------------------------- MODULE MTEnv -------------------------------\nEXTENDS TLC\nMro == <<>>\n====\n"
    cases = universe.export("MTFilterExport", "all", [], text)
    recs = run_enumerated(cases)
    plan.append({"family": "TLC-enumerated locations x allow-lists in a real temporary tree (exhaustive)", "cases": len(recs)})
    sweep, nmods = sweep_installed(10 ** 6, 40 if q else 100000, [[], ["json"], ["email", "zzz"], ["libcst", "typing", "os"]], seed)
    plan.append({"family": "installed standard library / site-packages: every code object of %d top-level packages "
                           "(distinct verdicts per file and allow-list)" % nmods, "cases": len(sweep),
                 "code_objects": sum(r.get("ncode", 0) for r in sweep) // 4})
    runs = run_main_scenarios(2 * 10 ** 6, 2 if q else 10, seed)
    plan.append({"family": "`monkeytype run` of generated scripts (functions of __main__ plus a user module)", "cases": len(runs)})
    vend = vendored_copies(3 * 10 ** 6, 12 if q else 60, seed)
    plan.append({"family": "an installed library file and a byte-identical copy in a user directory in one program, both orders "
                           "of first use, one cache lifetime", "cases": len(vend)})
    dyn = dynamic_code_scenarios(4 * 10 ** 6, seed, 200 if q else 3000)
    plan.append({"family": "functions created at run time, called and dropped in one session (addresses of dead code objects "
                           "are reused): custom filter by file name", "cases": len(dyn)})
    lnk = symlinked_prefix_scenarios(5 * 10 ** 6)
    plan.append({"family": "the interpreter reached through a symlinked prefix: stdlib / site-packages / user file", "cases": len(lnk)})
    reln = relative_name_scenarios(6 * 10 ** 6)
    plan.append({"family": "bare relative file names of real files next to synthetic file names, one cache lifetime, three orders", "cases": len(reln)})
    usite = user_site_scenarios(7 * 10 ** 6)
    plan.append({"family": "the per-user site-packages directory (site.getusersitepackages()) next to installed and user files", "cases": len(usite)})
    allrecs = recs + sweep + runs + vend + dyn + lnk + reln + usite
    slim = [{k: v for k, v in r.items() if k not in ("case", "ncode", "mode")} for r in allrecs]
    for r in slim:   # homogeneous records per family are not required, but every field a clause reads must exist
        r.setdefault("modules", [])
        r.setdefault("expected", [])
        r.setdefault("got", [])
    verdicts, states, trans, wall = tlc.validate_shards("MTFilterTrace", "MTInferTrace.cfg", slim, min_per_shard=500)
    by_tid = {r["tid"]: r for r in allrecs}
    for v in verdicts:
        r = by_tid[v["tid"]]
        if v.get("drift"):
            run.drift += 1
        for clause in v.get("viol", []):
            if r["ev"] == "Admit":
                vio = {"clause": clause, "allowlist": r["allowset"], "place": r.get("case", {}).get("place", "installed")}
                if vio["place"] == "vendored_copy_of_installed_file":
                    vio["order"], vio["which"] = r["case"]["order"], r["case"]["which"]
            else:
                vio = {"clause": clause}
            run.violation(vio, {k: r[k] for k in r if k != "tid"})
    # (b) custom filters through the tracer machinery
    from . import replay_tracer as rt
    from . import envgen
    envgen.load_fixture_classes()
    scs = custom_filter_scenarios(seed, 600 if q else 20000, tier)
    trecs = rt.run_scenarios(scs)
    tslim = [{k: r[k] for k in ("tid", "rate", "k", "events")} for r in trecs]
    tv, tstates, ttrans, twall = tlc.validate_shards("MTTracerTrace", "MTInferTrace.cfg", tslim,
                                                     extra_files={"MTEnv.tla": envgen.mtenv_text()})
    sc_by = {s["tid"]: s for s in scs}
    for v in tv:
        for clause in v.get("viol", []):
            if clause in ("OnlyAdmitted", "MissingLog", "MissingOrOutOfOrder", "SpuriousLog"):
                run.violation({"clause": "CustomFilter:" + clause}, {k: sc_by[v["tid"]][k] for k in ("hist", "seed", "admit", "rate", "k", "force", "twin_rejected", "falsy_filter", "filter_values", "nested") if k in sc_by[v["tid"]]})
    plan.append({"family": "custom filters: random subsets of the scripted program's functions (tracer replay)", "cases": len(trecs)})
    from . import replay_run
    extended = None if replay else replay_run.extended_stage(tier, seed)
    cov = {
        "states": states + tstates, "transitions": trans + ttrans,
        "extended_spec": extended,
        "traces_validated_against_impl": len(allrecs) + len(trecs),
        "evaluations": len(allrecs) + len(trecs),
        "distinct_nontrivial": sum(1 for r in recs if r["kind"] == "real") + len(trecs),
        "rule": "Admit records: one per (source location, allow-list) with the verdict of the real default_code_filter on a code "
                "object compiled with that file name; non-trivial = a real file name (synthetic names are trivially rejected) or a "
                "custom-filter tracer scenario; all enumerated cells are distinct",
        "samples": [recs[len(recs) // 2], runs[0]],
        "plan": plan,
        "trace_validation": {"spec": "MTFilterTrace (P: Expected, I: Code) and MTTracerTrace for custom filters",
                             "tlc_states": states + tstates, "wall_s": round(wall + twall, 1)},
        "exhaustive": False,
    }
    return run.finish(cov)
