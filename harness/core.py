"""Check driver plumbing: verdicts, known findings, evidence, exit codes (DESIGN.md 2.3, 8, 9)."""
import hashlib
import json
import os
import sys
import time

VERIF = os.path.dirname(os.path.dirname(os.path.abspath(__file__)))
REPO = os.environ.get("VERIF_REPO", "/repo")

TRUSTED_BASE = [
    "TLC 1.8 / SANY and the CommunityModules Json/IOUtils operators",
    "harness/absmodel.py projections (abs_value, abs_type) written without importing monkeytype",
    "CPython 3.12 ast / inspect / typing introspection used by the projections",
    "the fixture generators under /verif/harness and /verif/fixtures",
]


def use_repo():
    """Import monkeytype from /repo's current working tree (no build step, nothing cached)."""
    if REPO not in sys.path:
        sys.path.insert(0, REPO)
    fx = os.path.join(VERIF, "fixtures")
    if fx not in sys.path:
        sys.path.insert(0, fx)
    import monkeytype  # noqa: F401
    got = os.path.dirname(os.path.dirname(os.path.abspath(monkeytype.__file__)))
    if os.path.realpath(got) != os.path.realpath(REPO):
        raise RuntimeError("monkeytype imported from %s, expected %s" % (got, REPO))


def load_findings():
    p = os.path.join(VERIF, "known_findings.json")
    if not os.path.exists(p):
        return []
    with open(p) as fh:
        return json.load(fh).get("findings", [])


def model_deviations(names):
    p = os.path.join(VERIF, "model_deviations.json")
    with open(p) as fh:
        d = json.load(fh)
    return {n: bool(d.get(n, False)) for n in names}


def match_finding(findings, pid, vio):
    for f in findings:
        if f.get("property") != pid or f.get("status") != "open":
            continue
        if all(vio.get(k) == v for k, v in f.get("match", {}).items()):
            return f
    return None


class Run:
    """One invocation of one check."""

    def __init__(self, pid, tier, seed, level="model_checking"):
        self.pid, self.tier, self.seed, self.level = pid, tier, seed, level
        self.t0 = time.time()
        self.violations = []      # {clause, ..trigger fields.., case}
        self.drift = 0
        self.coverage = {}
        self.assumptions = list(TRUSTED_BASE)
        self.notes = []

    def violation(self, vio, case):
        """vio: dict with at least 'clause'; case: JSON-able replay input."""
        self.violations.append((vio, case))

    def write_replay(self, vio, case):
        d = os.path.join(VERIF if os.path.realpath(REPO) == "/repo" else "/tmp/verif_alt", "replays", self.pid)
        os.makedirs(d, exist_ok=True)
        blob = json.dumps({"property": self.pid, "violation": vio, "case": case}, sort_keys=True, indent=1)
        name = hashlib.sha1(blob.encode()).hexdigest()[:12] + ".json"
        p = os.path.join(d, name)
        with open(p, "w") as fh:
            fh.write(blob)
        return p

    def finish(self, coverage, extra_assumptions=()):
        findings = load_findings()
        known, new = {}, []
        for vio, case in self.violations:
            f = match_finding(findings, self.pid, vio)
            if f is not None:
                known.setdefault(f["id"], [f, 0])
                known[f["id"]][1] += 1
            else:
                new.append((vio, case))
        for fid, (f, n) in sorted(known.items()):
            print("KNOWN-FINDING: property=%s %s [%s, %d occurrence(s) this run]" % (self.pid, f["what"], fid, n))
        seen_keys = set()
        shown = 0
        for vio, case in new:
            key = json.dumps(vio, sort_keys=True)
            if key in seen_keys:
                continue
            seen_keys.add(key)
            if shown < 25:
                path = self.write_replay(vio, case)
                print("VIOLATION property=%s replay=%s %s" % (self.pid, path, json.dumps(vio, sort_keys=True)))
                shown += 1
        if self.drift:
            print("MODEL-DRIFT property=%s count=%d (implementation differs from the I-layer prediction but the "
                  "property holds; not an alarm)" % (self.pid, self.drift))
        cov = dict(coverage)
        cov.setdefault("known_finding_occurrences", {k: v[1] for k, v in known.items()})
        cov.setdefault("model_drift", self.drift)
        ev = {
            "property_id": self.pid,
            "tier": self.tier,
            "seed": self.seed,
            "level": self.level,
            "coverage": cov,
            "assumptions": self.assumptions + list(extra_assumptions),
            "wall_s": round(time.time() - self.t0, 2),
            "violations": len(seen_keys),
        }
        # runs against another tree (VERIF_REPO=<scratch worktree>, used for seeded changes) must not
        # overwrite the evidence of /repo itself
        evdir = os.path.join(VERIF, "evidence") if os.path.realpath(REPO) == "/repo" else "/tmp/verif_alt_evidence"
        os.makedirs(evdir, exist_ok=True)
        with open(os.path.join(evdir, self.pid + ".json"), "w") as fh:
            json.dump(ev, fh, indent=1, sort_keys=True)
        print("%s %s: %s; evidence/%s.json written (%.1fs)" % (
            self.pid, self.tier, "VIOLATIONS=%d" % len(seen_keys) if seen_keys else "ok", self.pid, ev["wall_s"]))
        return 1 if seen_keys else 0


def trim(obj, limit=600):
    s = json.dumps(obj, sort_keys=True)
    return obj if len(s) <= limit else {"truncated": s[:limit]}
