"""Spec growth beyond the listed properties: MTRun (`monkeytype run [-m] script args...`).  TLC enumerates every
behaviour of MTRun (which calls the script makes, how it ends); each is executed for real, in process, through
cli.main with the default configuration and a fresh SQLite file, as a script path and as a module, with and without
script arguments; the observations are validated by TLC against MTRunTrace.
Run as an extended stage of C17: a mismatch prints EXTENDED-SPEC-MISMATCH and does not change the exit status."""
import concurrent.futures
import io
import json
import os
import shutil
import sqlite3
import sys

from . import core, tlc

CFG = """SPECIFICATION Spec
CONSTANTS
  UserFuncs = {"used", "also_used"}
  MainFuncs = {"main_func"}
  MaxCalls = %d
INVARIANT AtEnd
INVARIANT ScriptSeesItsArgv
INVARIANT NothingOfMain
INVARIANT Emit
CHECK_DEADLOCK FALSE
"""
USER = ["used", "also_used"]

USER_MOD = '''def used(a):
    return a


def also_used(a, b=1):
    return [a]
'''

SCRIPT = '''import json
import os
import sys
import {user} as U

OBS = []


def main_func(x):
    return x


def note():
    OBS.append([list(sys.argv), type(sys.getprofile()).__name__])


for f in {calls!r}:
    note()
    if f == "main_func":
        main_func(1)
    else:
        getattr(U, f)(1)
note()
with open(os.environ["MTRUN_OBS"], "w") as fh:
    json.dump(OBS, fh)
{ending}
'''
ENDINGS = {"normal": "", "exception": "raise ValueError('boom')", "exit0": "sys.exit(0)", "exit3": "sys.exit(3)"}


def replay(chunk):
    core.use_repo()
    import logging
    logging.disable(logging.CRITICAL)
    from monkeytype import cli
    d = tlc.scratch_dir("mtverif_runspec_")
    old_cwd = os.getcwd()
    os.chdir(d)
    sys.path.insert(0, d)        # what entry_point_main does before calling cli.main
    os.environ.pop("MONKEYTYPE_TRACE_MODULES", None)
    out = []
    try:
        for sc in chunk:
            tid = sc["tid"]
            user, script = "mtr_user_%d_%d" % (os.getpid(), tid), "mtr_script_%d_%d" % (os.getpid(), tid)
            with open(os.path.join(d, user + ".py"), "w") as fh:
                fh.write(USER_MOD)
            with open(os.path.join(d, script + ".py"), "w") as fh:
                fh.write(SCRIPT.format(user=user, calls=list(sc["calls"]), ending=ENDINGS[sc["ending"]]))
            db, obsf = os.path.join(d, "db_%d.sqlite3" % tid), os.path.join(d, "obs_%d.json" % tid)
            os.environ.update(MT_DB_PATH=db, MTRUN_OBS=obsf)
            argv = ["run"] + (["-m", script] if sc["module"] else [script + ".py"]) + sc["args"]
            saved_argv, saved_path = list(sys.argv), list(sys.path)
            result = "normal"
            try:
                rc = cli.main(argv, io.StringIO(), io.StringIO())
                if rc not in (0, None):
                    result = "rc%s" % rc
            except SystemExit as e:
                result = "exit%s" % (e.code if e.code is not None else 0)
            except ValueError:
                result = "exception"
            except BaseException as e:    # anything else is not what the script did
                result = "other:%s" % type(e).__name__
            prof_restored = sys.getprofile() is None
            sys.setprofile(None)
            argv_restored = sys.argv == saved_argv
            sys.argv[:] = saved_argv
            sys.path[:] = saved_path
            try:
                with open(obsf) as fh:
                    obs = json.load(fh)
            except OSError:
                obs = []
            if sc["module"]:
                argv_ok = bool(obs) and all(o[0][1:] == sc["args"] and os.path.basename(o[0][0]) == script + ".py" for o in obs)
            else:
                argv_ok = bool(obs) and all(o[0] == [script + ".py"] + sc["args"] for o in obs)
            prof_ok = bool(obs) and all(o[1] == "CallTracer" for o in obs)
            stored = []
            if os.path.exists(db):
                c = sqlite3.connect(db)
                try:
                    rows = c.execute("SELECT DISTINCT module, qualname FROM monkeytype_call_traces").fetchall()
                except sqlite3.OperationalError:
                    rows = []
                c.close()
                stored = sorted({q if m == user else "%s:%s" % (m, q) for m, q in rows})
                stored = ["main_func" if s.endswith(":main_func") else s for s in stored]
                os.unlink(db)
            for m in (user, script):
                sys.modules.pop(m, None)
            out.append({"tid": tid, "calls": list(sc["calls"]), "ending": sc["ending"], "user": USER, "seen_argv_ok": argv_ok,
                        "seen_prof_ok": prof_ok, "argv_restored": argv_restored, "prof_restored": prof_restored,
                        "stored": stored, "result": result, "module": sc["module"], "args": sc["args"]})
    finally:
        os.chdir(old_cwd)
        shutil.rmtree(d, ignore_errors=True)
    return out


def extended_stage(tier, seed):
    res = tlc.run_tlc("MTRun", cfg_text=CFG % (3 if tier == "quick" else 5), workers=4, timeout=1800)
    tlc.check_ok(res, "MTRun")
    if res.invariant_violated:
        raise tlc.TLCFailure("MTRun: design-level invariant violated: %s" % res.invariant_violated)
    beh = res.printed("H")
    scs = []
    for b in beh:
        for module in (False, True):
            for args in ([], ["a", "-x", "--limit=3"]):
                scs.append({"tid": len(scs) + 1, "calls": b["calls"], "ending": b["ending"], "module": module, "args": args})
    chunks = [scs[i::16] for i in range(16)]
    recs = []
    with concurrent.futures.ProcessPoolExecutor(max_workers=16) as ex:
        for part in ex.map(replay, [c for c in chunks if c]):
            recs.extend(part)
    slim = [{k: r[k] for k in ("tid", "calls", "ending", "user", "seen_argv_ok", "seen_prof_ok", "argv_restored", "prof_restored",
                                "stored", "result")} for r in recs]
    verdicts, states, trans, wall = tlc.validate_shards("MTRunTrace", "MTInferTrace.cfg", slim, min_per_shard=200)
    by = {r["tid"]: r for r in recs}
    mism = []
    for v in verdicts:
        for clause in v.get("viol", []):
            r = by[v["tid"]]
            mism.append({"clause": clause, "calls": r["calls"], "ending": r["ending"], "module": r["module"], "args": r["args"],
                         "result": r["result"], "stored": r["stored"]})
            print("EXTENDED-SPEC-MISMATCH spec=MTRun clause=%s ending=%s -m=%s (beyond the listed properties; not an alarm)"
                  % (clause, r["ending"], r["module"]))
    return {"spec": "MTRun / MTRunTrace (`monkeytype run [-m] script args`: argv, profiler, flush whatever the ending, ending propagates)",
            "design_check": {"distinct_states": res.distinct, "invariants": ["AtEnd", "ScriptSeesItsArgv", "NothingOfMain"]},
            "behaviours": len(beh), "executions": len(recs), "tlc_states": states, "mismatches": mism[:10], "n_mismatches": len(mism)}
