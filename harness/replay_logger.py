"""Spec growth beyond the listed properties: MTLogger (monkeytype/db/base.py CallTraceStoreLogger over a SQLite
store).  Direction spec -> code: TLC enumerates the behaviours of MTLogger (log / flush / flush while the store is
write-locked / lock / unlock, two loggers over one file); each behaviour is stepped through real
CallTraceStoreLogger objects and after EVERY step the real buffers and the real store contents are recorded; TLC
then validates the recorded trace against MTLoggerTrace (which re-uses MTLogger's effects).
Run as an extended stage of C09: a mismatch prints EXTENDED-SPEC-MISMATCH and does not change the exit status."""
import concurrent.futures
import os
import random
import shutil
import sqlite3

from . import core, tlc

CFG = """SPECIFICATION Spec
CONSTANTS
  NLoggers = 2
  Traces = {1, 2, 3}
  MainTraces = {3}
  MaxBuf = 3
  MaxDepth = %d
CONSTRAINT Bound
%s
CHECK_DEADLOCK FALSE
"""
DESIGN = "INVARIANT NoLoss\nINVARIANT MainNeverKept\nINVARIANT OnlyLogged\nINVARIANT BufferedWasLogged\nPROPERTY FlushAllOrNothing\nPROPERTY StoreMonotone\nVIEW View"


def t1(a):
    return a


def t2(a):
    return a


def t3(a):
    return a


t3.__module__ = "__main__"
FUNCS = {1: t1, 2: t2, 3: t3}
IDS = {"t1": 1, "t2": 2, "t3": 3}


def behaviours(tier, seed):
    q = tier == "quick"
    mc = tlc.run_tlc("MTLoggerMC", cfg_text=CFG % (9 if q else 12, DESIGN), workers=16, timeout=1800)
    tlc.check_ok(mc, "MTLoggerMC design")
    if mc.invariant_violated or mc.property_violated:
        raise tlc.TLCFailure("MTLoggerMC: design-level property violated\n" + mc.out[-1500:])
    apa = None
    if not q:     # unbounded: the conjunction is an inductive invariant (Apalache; base case and step)
        base = tlc.run_apalache("MC_MTLoggerApa", "Init", "IndInv", 0)
        step = tlc.run_apalache("MC_MTLoggerApa", "IndInit", "IndInv", 1)
        if not (base[0] and step[0]):
            raise tlc.TLCFailure("MC_MTLoggerApa: IndInv is not inductive\n" + (base[2] if not base[0] else step[2]))
        apa = {"tool": "apalache-mc 0.58", "inductive_invariant": "TypeOK /\\ NoLoss /\\ MainNeverKept /\\ OnlyLogged /\\ BufferedWasLogged",
               "base_s": round(base[1], 1), "step_s": round(step[1], 1)}
    d = 4 if q else 5
    bfs = tlc.run_tlc("MTLoggerMC", cfg_text=CFG % (d, "INVARIANT Emit"), workers=16, timeout=1800)
    tlc.check_ok(bfs, "MTLoggerMC export")
    sim = tlc.run_tlc("MTLoggerMC", cfg_text=CFG % (14, "INVARIANT Emit"), workers=1, simulate="num=%d" % (1500 if q else 30000),
                      depth=15, seed=seed + 5, timeout=1800)
    tlc.check_ok(sim, "MTLoggerMC simulate")
    b1, b2 = bfs.printed("H"), sim.printed("H")
    return mc, b1, b2, d, apa


def replay(chunk):
    core.use_repo()
    import logging
    logging.disable(logging.CRITICAL)
    from monkeytype.db.base import CallTraceStoreLogger
    from monkeytype.db.sqlite import SQLiteStore, create_call_trace_table
    from monkeytype.tracing import CallTrace
    d = tlc.scratch_dir("mtverif_logger_")
    out = []
    try:
        for n, (tid, hist) in enumerate(chunk):
            db = os.path.join(d, "l%d.db" % n)
            c0 = sqlite3.connect(db)
            create_call_trace_table(c0)
            c0.close()
            loggers = [CallTraceStoreLogger(SQLiteStore(sqlite3.connect(db, timeout=0))) for _ in range(2)]
            locker = sqlite3.connect(db, timeout=0, isolation_level=None)
            reader = SQLiteStore(sqlite3.connect(db, timeout=0))
            events = []
            for h in hist:
                ok = True
                if h["op"] == "Log":
                    loggers[h["l"] - 1].log(CallTrace(FUNCS[h["t"]], {"a": int}, int))
                elif h["op"] == "Flush":
                    try:
                        loggers[h["l"] - 1].flush()
                    except sqlite3.OperationalError:
                        ok = False
                elif h["op"] == "Lock":
                    locker.execute("BEGIN IMMEDIATE")
                elif h["op"] == "Unlock":
                    locker.execute("ROLLBACK")
                rows = reader.filter(__name__, None, 2000) + reader.filter("__main__", None, 2000)
                events.append({"op": h["op"], "l": h["l"], "t": h["t"], "ok": ok,
                               "bufs": [[IDS[t.func.__name__] for t in lg.traces] for lg in loggers],
                               "store": [IDS[r.to_trace().func.__name__] if r.module != "__main__" else 3 for r in rows]})
            for lg in loggers:
                lg.store.conn.close()
            locker.close()
            reader.conn.close()
            os.unlink(db)
            out.append({"tid": tid, "nloggers": 2, "main": [3], "events": events})
    finally:
        shutil.rmtree(d, ignore_errors=True)
    return out


def extended_stage(tier, seed):
    mc, b1, b2, d, apa = behaviours(tier, seed)
    hists = [b["hist"] for b in b1 + b2 if b["hist"]]
    uniq = {}
    for h in hists:
        uniq.setdefault(repr(h), h)
    hists = list(uniq.values())
    random.Random(seed).shuffle(hists)
    hists = hists[:4000 if tier == "quick" else 60000]
    items = list(enumerate(hists, 1))
    chunks = [items[i::16] for i in range(16)]
    recs = []
    with concurrent.futures.ProcessPoolExecutor(max_workers=16) as ex:
        for part in ex.map(replay, [c for c in chunks if c]):
            recs.extend(part)
    verdicts, states, trans, wall = tlc.validate_shards("MTLoggerTrace", "MTInferTrace.cfg", recs, min_per_shard=200)
    by = {r["tid"]: r for r in recs}
    mism = []
    for v in verdicts:
        for clause in v.get("viol", []):
            mism.append({"clause": clause, "ops": [[e["op"], e["l"], e["t"]] for e in by[v["tid"]]["events"]]})
            print("EXTENDED-SPEC-MISMATCH spec=MTLogger clause=%s (beyond the listed properties; not an alarm)" % clause)
    failed = sum(1 for r in recs for e in r["events"] if e["op"] == "Flush" and not e["ok"])
    return {"spec": "MTLogger / MTLoggerTrace (CallTraceStoreLogger: log, flush, failed flush keeps the buffer; two loggers, one store)",
            "design_check": {"distinct_states": mc.distinct, "depth": mc.depth,
                             "properties": ["NoLoss", "MainNeverKept", "OnlyLogged", "BufferedWasLogged", "FlushAllOrNothing", "StoreMonotone"],
                             "unbounded": apa},
            "behaviours_replayed": len(recs), "exhaustive_depth": d, "steps_compared": sum(len(r["events"]) for r in recs),
            "failed_flushes_exercised": failed, "tlc_states": states, "mismatches": mism[:10], "n_mismatches": len(mism)}
